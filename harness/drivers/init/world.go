package main

import (
	"context"
	"crypto/x509"
	"encoding/base64"
	"encoding/json"
	"fmt"
	"sort"
	"strings"
	"sync"

	"github.com/spf13/afero"
	admv1 "k8s.io/api/admissionregistration/v1"
	corev1 "k8s.io/api/core/v1"
	extv1 "k8s.io/apiextensions-apiserver/pkg/apis/apiextensions/v1"
	metav1 "k8s.io/apimachinery/pkg/apis/meta/v1"
	"k8s.io/apimachinery/pkg/apis/meta/v1/unstructured"
	"k8s.io/apimachinery/pkg/runtime"
	"k8s.io/apimachinery/pkg/types"
	"k8s.io/utils/ptr"
	"sigs.k8s.io/controller-runtime/pkg/client"

	xpv1 "github.com/crossplane/crossplane-runtime/apis/common/v1"
	"github.com/crossplane/crossplane-runtime/pkg/logging"

	pkgv1 "github.com/crossplane/crossplane/apis/pkg/v1"
	pkgv1beta1 "github.com/crossplane/crossplane/apis/pkg/v1beta1"
	scv1alpha1 "github.com/crossplane/crossplane/apis/secrets/v1alpha1"
	"github.com/crossplane/crossplane/internal/initializer"
	"github.com/crossplane/crossplane/zzverif/simapi"
)

// ---- the fixed installation parameters (what cmd/crossplane/core/init.go gets from its flags) ----

const (
	ns         = "crossplane-system"
	caName     = "crossplane-root-ca"
	srvName    = "crossplane-tls-server"
	cliName    = "crossplane-tls-client"
	essName    = "ess-tls-server"
	svcName    = "crossplane-webhooks"
	saName     = "crossplane"
	crdAName   = "things.verif.example.org"
	crdBName   = "locks.pkg.crossplane.io"
	customName = "my-package"
)

var (
	srvDNS = initializer.DNSNamesForService(svcName, ns)
	cliDNS = []string{saName + "." + ns}
	essDNS = []string{"*." + ns}

	hostOf = map[string]string{"": "", "h": "xpkg.example.org/", "hp": "registry.example.org:5000/", "hd": "docker.io/"} // hd: a host alias that image reference parsers rewrite (to index.docker.io)
	repoOf = map[string]string{"r1": "acme/provider-one", "r2": "acme/provider-two"}
	verOf  = map[string]string{"t1": ":v1.0.0", "t2": ":v2.0.0",
		"d1": "@sha256:" + strings.Repeat("1a", 32), "d2": "@sha256:" + strings.Repeat("2b", 32)}
	// the object name the initializer gives a package it installs itself
	defNameOf     = map[string]string{"r1": "acme-provider-one", "r2": "acme-provider-two"}
	preloadedName = "aaa-preloaded" // (sorts before every other package name of the scenarios)
	kindOf        = map[string]string{"prov": "Provider", "conf": "Configuration", "func": "Function"}
	absKind       = map[string]string{"Provider": "prov", "Configuration": "conf", "Function": "func"}
)

func image(h, r, v string) string { return hostOf[h] + repoOf[r] + verOf[v] }

// parseImage maps a spec.package value back to the abstract tokens.
func parseImage(s string) (h, r, v string) {
	for ah, ch := range hostOf {
		if ah != "" && strings.HasPrefix(s, ch) {
			h, s = ah, strings.TrimPrefix(s, ch)
		}
	}
	for av, cv := range verOf {
		if strings.HasSuffix(s, cv) {
			v, s = av, strings.TrimSuffix(s, cv)
		}
	}
	for ar, cr := range repoOf {
		if s == cr {
			r = ar
		}
	}
	if r == "" {
		r = "?" + s
	}
	if v == "" {
		v = "?"
	}
	return h, r, v
}

const crdAYAML = `apiVersion: apiextensions.k8s.io/v1
kind: CustomResourceDefinition
metadata:
  name: things.verif.example.org
spec:
  group: verif.example.org
  names: {kind: Thing, listKind: ThingList, plural: things, singular: thing}
  scope: Cluster
  conversion:
    strategy: Webhook
    webhook:
      conversionReviewVersions: ["v1"]
      clientConfig:
        service: {name: crossplane-webhooks, namespace: crossplane-system, path: /convert, port: 9443}
  versions:
  - name: v1
    served: true
    storage: true
    schema: {openAPIV3Schema: {type: object}}
  - name: v1beta1
    served: true
    storage: false
    schema: {openAPIV3Schema: {type: object}}
`

const crdBYAML = `apiVersion: apiextensions.k8s.io/v1
kind: CustomResourceDefinition
metadata:
  name: locks.pkg.crossplane.io
spec:
  group: pkg.crossplane.io
  names: {kind: Lock, listKind: LockList, plural: locks, singular: lock}
  scope: Cluster
  versions:
  - name: v1alpha1
    served: true
    storage: false
    schema: {openAPIV3Schema: {type: object}}
  - name: v1beta1
    served: true
    storage: true
    schema: {openAPIV3Schema: {type: object}}
`

const whcYAML = `apiVersion: admissionregistration.k8s.io/v1
kind: ValidatingWebhookConfiguration
metadata:
  name: validating-webhook-configuration
webhooks:
- name: things.verif.example.org
  admissionReviewVersions: ["v1"]
  sideEffects: None
  clientConfig:
    service: {name: webhook-service, namespace: system, path: /validate}
  rules:
  - apiGroups: ["verif.example.org"]
    apiVersions: ["v1"]
    operations: ["CREATE", "UPDATE"]
    resources: ["things"]
---
apiVersion: admissionregistration.k8s.io/v1
kind: MutatingWebhookConfiguration
metadata:
  name: mutating-webhook-configuration
webhooks:
- name: mthings.verif.example.org
  admissionReviewVersions: ["v1"]
  sideEffects: None
  clientConfig:
    service: {name: webhook-service, namespace: system, path: /mutate}
  rules:
  - apiGroups: ["verif.example.org"]
    apiVersions: ["v1"]
    operations: ["CREATE"]
    resources: ["things"]
`

var (
	kSecret = func(n string) simapi.Key { return simapi.Key{Kind: "Secret", Namespace: ns, Name: n} }
	kCRD    = func(n string) simapi.Key {
		return simapi.Key{Group: "apiextensions.k8s.io", Kind: "CustomResourceDefinition", Name: n}
	}
	kVal  = simapi.Key{Group: "admissionregistration.k8s.io", Kind: "ValidatingWebhookConfiguration", Name: "crossplane"}
	kMut  = simapi.Key{Group: "admissionregistration.k8s.io", Kind: "MutatingWebhookConfiguration", Name: "crossplane"}
	kLock = simapi.Key{Group: "pkg.crossplane.io", Kind: "Lock", Name: "lock"}
	kSC   = simapi.Key{Group: "secrets.crossplane.io", Kind: "StoreConfig", Name: "default"}
	kDRC  = simapi.Key{Group: "pkg.crossplane.io", Kind: "DeploymentRuntimeConfig", Name: "default"}
)

var scheme = func() *runtime.Scheme {
	s := runtime.NewScheme()
	_ = corev1.AddToScheme(s)
	_ = extv1.AddToScheme(s)
	_ = admv1.AddToScheme(s)
	_ = pkgv1.AddToScheme(s)
	_ = pkgv1beta1.AddToScheme(s)
	_ = scv1alpha1.AddToScheme(s)
	return s
}()

// ---- scenario input (the "init" entry of a TLC history) ----

type pkgRef struct {
	N string `json:"n"` // inst only: "none" | "def" | "custom"
	H string `json:"h"`
	V string `json:"v"`
}

type input struct {
	Fam    string `json:"fam"`
	CA     string `json:"ca"`
	Srv    string `json:"srv"`
	Cli    string `json:"cli"`
	Ess    string `json:"ess"`
	Crd    string `json:"crd"`
	Whc    string `json:"whc"`
	Lock   string `json:"lock"`
	SC     string `json:"sc"`
	DRC    string `json:"drc"`
	Stored string `json:"stored"`
	Kind   string `json:"kind"`
	Inst   pkgRef `json:"inst"`
	Req    pkgRef `json:"req"`
	Req2   bool   `json:"req2"`
	Runs   int    `json:"runs"`
}

type fault struct {
	Run int    `json:"run"`
	At  string `json:"at"`  // abstract call label; or "#<k>" = k-th real call of the run (sweep)
	F   string `json:"f"`   // fail | crashAfter
	How string `json:"how"` // realisation of fail: error | conflict | crashBefore
}

// world is one simulated cluster plus the real initializer wired to it.
type world struct {
	in   input
	raw  map[string]any
	s    *simapi.Server
	c    *simapi.Client
	ks   *keys
	fs   afero.Fs
	real bool // use the untouched real certificate generator
	gen  *fastGen

	scen   string
	run    int
	step   string
	pkgGet int
	migGet int
	faults []fault
	fired  map[int]bool
	inj    string // injected outcome in the current run ("" if none)
	injAt  string
	events []map[string]any
	record bool

	prevDx    string
	prevDp    string
	prevClean bool
	prevValid bool
	aborted   bool // some earlier run of this scenario was hit by an injected fault
	ref       map[string]any

	calls  map[string]int // label -> count (summary)
	others map[string]int
	vcache map[string][2]bool
	ccache map[string]string
}

// the certificate material of the initial cluster contents (the environment's):
// generated once, from pool keys that the scenarios themselves never get.
type initialMaterial struct {
	ca0, other, rival pair
	leaf              map[string]pair
}

var (
	matOnce sync.Once
	mat     initialMaterial
)

const reservedKeys = 7

func material() *initialMaterial {
	matOnce.Do(func() {
		ks := &keys{}
		mat.ca0, mat.other = mkCA(ks, "Crossplane"), mkCA(ks, "Other")
		mat.leaf = map[string]pair{
			srvName:              mkLeaf(ks, mat.ca0, srvDNS, x509.ExtKeyUsageServerAuth),
			srvName + "/foreign": mkLeaf(ks, mat.other, srvDNS, x509.ExtKeyUsageServerAuth),
			cliName:              mkLeaf(ks, mat.ca0, cliDNS, x509.ExtKeyUsageClientAuth),
			essName:              mkLeaf(ks, mat.ca0, essDNS, x509.ExtKeyUsageServerAuth),
		}
		mat.rival = mkCA(ks, "Rival") // (the seventh reserved key)
		if ks.next != reservedKeys {
			panic("reservedKeys")
		}
	})
	return &mat
}

func secret(name string, data map[string][]byte) *corev1.Secret {
	return &corev1.Secret{ObjectMeta: metav1.ObjectMeta{Name: name, Namespace: ns}, Data: data}
}

func newWorld(scen string, in input, raw map[string]any, real bool) *world {
	w := &world{in: in, raw: raw, scen: scen, real: real, ks: &keys{next: reservedKeys}, fired: map[int]bool{}, calls: map[string]int{}, others: map[string]int{}, vcache: map[string][2]bool{}, ccache: map[string]string{}}
	w.s = simapi.NewServer(scheme)
	w.c = simapi.NewClient(w.s, "init")
	w.fs = afero.NewMemMapFs()
	_ = afero.WriteFile(w.fs, "/crds/a_things.yaml", []byte(crdAYAML), 0o644)
	_ = afero.WriteFile(w.fs, "/crds/b_locks.yaml", []byte(crdBYAML), 0o644)
	_ = afero.WriteFile(w.fs, "/webhookconfigurations/manifests.yaml", []byte(whcYAML), 0o644)
	w.gen = &fastGen{ks: w.ks}
	w.populate()
	w.c.Intercept = w.intercept
	w.s.OnEvent = w.onEvent
	return w
}

// populate builds the initial cluster contents the scenario asks for.
func (w *world) populate() {
	in := w.in
	mat := material()
	ca0 := mat.ca0
	switch in.CA {
	case "empty":
		w.s.Put(secret(caName, nil))
	case "complete":
		w.s.Put(secret(caName, map[string][]byte{"tls.crt": ca0.crt, "tls.key": ca0.key}))
	case "nokey":
		w.s.Put(secret(caName, map[string][]byte{"tls.crt": ca0.crt}))
	case "nocert":
		w.s.Put(secret(caName, map[string][]byte{"tls.key": ca0.key}))
	}
	leaf := func(name, st string) []byte {
		iss, p := ca0, mat.leaf[name]
		if st == "foreign" {
			iss, p = mat.other, mat.leaf[name+"/foreign"]
		}
		all := map[string][]byte{"tls.crt": p.crt, "tls.key": p.key, "ca.crt": iss.crt}
		pick := map[string][]string{"empty": {}, "crt": {"tls.crt"}, "key": {"tls.key"}, "partial": {"tls.key"}, "cacrt": {"ca.crt"},
			"complete": {"tls.crt", "tls.key", "ca.crt"}, "foreign": {"tls.crt", "tls.key", "ca.crt"}}
		ks, ok := pick[st]
		if !ok {
			return nil
		}
		d := map[string][]byte{}
		for _, k := range ks {
			d[k] = all[k]
		}
		w.s.Put(secret(name, d))
		return d["tls.crt"]
	}
	srvCrt := leaf(srvName, in.Srv)
	leaf(cliName, in.Cli)
	leaf(essName, in.Ess)

	bundle := func(st string) []byte {
		if st == "current" && len(srvCrt) > 0 {
			return srvCrt
		}
		return []byte("stale-bundle")
	}
	if in.Crd != "absent" {
		for _, y := range []string{crdAYAML, crdBYAML} {
			crd := &extv1.CustomResourceDefinition{}
			mustYAML(y, crd)
			if crd.Name == crdAName {
				crd.Spec.Conversion.Webhook.ClientConfig.CABundle = bundle(in.Crd)
			}
			if crd.Name == crdBName {
				crd.Status.StoredVersions = []string{"v1beta1"}
				if in.Stored == "old" {
					crd.Status.StoredVersions = []string{"v1alpha1", "v1beta1"}
				}
			}
			w.s.Put(crd)
		}
	}
	if in.Whc != "absent" {
		v := &admv1.ValidatingWebhookConfiguration{}
		m := &admv1.MutatingWebhookConfiguration{}
		docs := strings.Split(whcYAML, "\n---\n")
		mustYAML(docs[0], v)
		mustYAML(docs[1], m)
		v.Name, m.Name = "crossplane", "crossplane"
		for i := range v.Webhooks {
			v.Webhooks[i].ClientConfig.CABundle = bundle(in.Whc)
			v.Webhooks[i].ClientConfig.Service.Name, v.Webhooks[i].ClientConfig.Service.Namespace, v.Webhooks[i].ClientConfig.Service.Port = svcName, ns, ptr.To[int32](9443)
		}
		for i := range m.Webhooks {
			m.Webhooks[i].ClientConfig.CABundle = bundle(in.Whc)
			m.Webhooks[i].ClientConfig.Service.Name, m.Webhooks[i].ClientConfig.Service.Namespace, m.Webhooks[i].ClientConfig.Service.Port = svcName, ns, ptr.To[int32](9443)
		}
		w.s.Put(v)
		w.s.Put(m)
	}
	edited := map[string]string{"verif.example.org/edited-by": "user"}
	if in.Lock == "edited" {
		w.s.Put(&pkgv1beta1.Lock{ObjectMeta: metav1.ObjectMeta{Name: "lock", Annotations: edited, Finalizers: []string{"lock.pkg.crossplane.io"}},
			Packages: []pkgv1beta1.LockPackage{{Name: "acme-provider-one-abc", Type: ptr.To(pkgv1beta1.ProviderPackageType), Source: "xpkg.example.org/acme/provider-one", Version: "v1.0.0", Dependencies: []pkgv1beta1.Dependency{}}}})
	}
	if in.SC == "edited" {
		w.s.Put(&scv1alpha1.StoreConfig{ObjectMeta: metav1.ObjectMeta{Name: "default", Annotations: edited},
			Spec: scv1alpha1.StoreConfigSpec{SecretStoreConfig: xpv1.SecretStoreConfig{DefaultScope: "somewhere-else"}}})
	}
	if in.DRC == "edited" {
		w.s.Put(&pkgv1beta1.DeploymentRuntimeConfig{ObjectMeta: metav1.ObjectMeta{Name: "default", Annotations: edited},
			Spec: pkgv1beta1.DeploymentRuntimeConfigSpec{ServiceAccountTemplate: &pkgv1beta1.ServiceAccountTemplate{Metadata: &pkgv1beta1.ObjectMeta{Labels: map[string]string{"team": "a"}}}}})
	}
	if in.Inst.N != "none" {
		// Next to it, and listed before it: a package of the same kind that was preloaded into the package cache (pull policy
		// Never) - its spec.package is a file name, not an OCI reference. The installer must step over it (added after the seeded
		// change C20-m10 - indexing the installed packages stops at the first source that does not parse - was missed).
		w.s.Put(&unstructured.Unstructured{Object: map[string]any{
			"apiVersion": "pkg.crossplane.io/v1", "kind": kindOf[in.Kind],
			"metadata": map[string]any{"name": preloadedName},
			"spec":     map[string]any{"package": "Provider-Foo.xpkg", "packagePullPolicy": "Never"},
		}})
		name := defNameOf["r1"]
		if in.Inst.N == "custom" {
			name = customName
		}
		o := &unstructured.Unstructured{Object: map[string]any{
			"apiVersion": "pkg.crossplane.io/v1", "kind": kindOf[in.Kind],
			"metadata": map[string]any{"name": name, "annotations": map[string]any{"verif.example.org/edited-by": "user"}},
			"spec":     map[string]any{"package": image(in.Inst.H, "r1", in.Inst.V), "revisionActivationPolicy": "Manual", "revisionHistoryLimit": int64(3)},
		}}
		w.s.Put(o)
	}
}

func (w *world) requests() (p, c, f []string) {
	imgs := []string{image(w.in.Req.H, "r1", w.in.Req.V)}
	if w.in.Req2 {
		h2 := "h" // another repository of the registry the installed package came from
		if w.in.Inst.N != "none" && w.in.Inst.N != "" {
			h2 = w.in.Inst.H
		}
		imgs = append(imgs, image(h2, "r2", "t1"))
	}
	switch w.in.Kind {
	case "conf":
		return nil, imgs, nil
	case "func":
		return nil, nil, imgs
	}
	return imgs, nil, nil
}

// steps builds the step list exactly as cmd/crossplane/core/init.go does for
// an installation with webhooks and an ESS TLS secret enabled. Every real
// step is wrapped by a StepFunc that only notes which step is running (the
// call classifier needs it) and delegates to the real step.
func (w *world) steps() []initializer.Step {
	log := logging.NewNopLogger()
	named := func(n string, s initializer.Step) initializer.Step {
		return initializer.StepFunc(func(ctx context.Context, kube client.Client) error {
			w.step, w.pkgGet, w.migGet = n, 0, 0
			return s.Run(ctx, kube)
		})
	}
	tls := initializer.NewTLSCertificateGenerator(ns, caName,
		initializer.TLSCertificateGeneratorWithClientSecretName(cliName, cliDNS),
		initializer.TLSCertificateGeneratorWithLogger(log),
		initializer.TLSCertificateGeneratorWithServerSecretName(srvName, srvDNS))
	ess := initializer.NewTLSCertificateGenerator(ns, caName,
		initializer.TLSCertificateGeneratorWithServerSecretName(essName, essDNS),
		initializer.TLSCertificateGeneratorWithLogger(log))
	if !w.real {
		if !inject(tls, w.gen) || !inject(ess, w.gen) {
			w.real = true
		}
	}
	nn := types.NamespacedName{Name: srvName, Namespace: ns}
	svc := admv1.ServiceReference{Name: svcName, Namespace: ns, Port: ptr.To[int32](9443)}
	p, c, f := w.requests()
	st := []initializer.Step{
		named("tls", tls),
		named("crds", initializer.NewCoreCRDs("/crds", scheme, initializer.WithWebhookTLSSecretRef(nn), initializer.WithFs(w.fs))),
		named("whc", initializer.NewWebhookConfigurations("/webhookconfigurations", scheme, nn, svc, initializer.WithWebhookConfigurationsFs(w.fs))),
	}
	for i, m := range [][2]string{
		{"compositionrevisions.apiextensions.crossplane.io", "v1alpha1"},
		{"environmentconfigs.apiextensions.crossplane.io", "v1beta1"},
		{"usages.apiextensions.crossplane.io", "v1beta1"},
		{"functions.pkg.crossplane.io", "v1beta1"},
		{"functionrevisions.pkg.crossplane.io", "v1beta1"},
		{"locks.pkg.crossplane.io", "v1alpha1"},
	} {
		st = append(st, named(fmt.Sprintf("mig%d", i+1), initializer.NewCoreCRDsMigrator(m[0], m[1])))
	}
	st = append(st,
		named("ess", ess),
		named("lock", initializer.NewLockObject()),
		named("pkg", initializer.NewPackageInstaller(p, c, f)),
		named("sc", initializer.NewStoreConfigObject(ns)),
		named("drc", initializer.StepFunc(initializer.DefaultDeploymentRuntimeConfig)),
	)
	return st
}

// label classifies a call of the current step into the call alphabet of spec/Init.tla.
func (w *world) label(verb, kind, name string, peek bool) string {
	put := verb == "create" || verb == "update" || strings.HasPrefix(verb, "patch-")
	vp := map[bool]string{false: "get", true: "put"}[put]
	if verb != "get" && !put && verb != "list" {
		return "other:" + w.step + ":" + verb + ":" + kind
	}
	sec := map[string]string{caName: "ca", srvName: "srv", cliName: "cli", essName: "ess"}
	switch {
	case w.step == "tls" && kind == "Secret" && sec[name] != "" && sec[name] != "ess" && verb != "list":
		return "tls." + vp + "." + sec[name]
	case w.step == "ess" && kind == "Secret" && (sec[name] == "ca" || sec[name] == "ess") && verb != "list":
		return "ess." + vp + "." + sec[name]
	case (w.step == "crds" || w.step == "whc") && kind == "Secret" && name == srvName && verb == "get":
		return w.step + ".get.srv"
	case w.step == "crds" && kind == "CustomResourceDefinition" && verb != "list" && (name == crdAName || name == crdBName):
		return "crds." + vp + "." + map[string]string{crdAName: "crdA", crdBName: "crdB"}[name]
	case w.step == "whc" && kind == "ValidatingWebhookConfiguration" && verb != "list":
		return "whc." + vp + ".val"
	case w.step == "whc" && kind == "MutatingWebhookConfiguration" && verb != "list":
		return "whc." + vp + ".mut"
	case strings.HasPrefix(w.step, "mig"):
		switch {
		case kind == "CustomResourceDefinition" && verb == "get":
			n := w.migGet
			if !peek {
				w.migGet++
			}
			if n == 0 {
				return "mig.get." + strings.TrimPrefix(w.step, "mig")
			}
			return "mig.get2"
		case kind == "Lock" && verb == "list":
			return "mig.list"
		case kind == "Lock" && put:
			return "mig.patch"
		case kind == "CustomResourceDefinition" && put:
			return "mig.putst"
		}
	case w.step == "lock" && kind == "Lock" && verb != "list":
		return "lock." + vp
	case w.step == "pkg" && absKind[kind] != "":
		if verb == "list" {
			return "pkg.list." + absKind[kind]
		}
		if verb == "get" {
			if !peek {
				w.pkgGet++
			}
			n := w.pkgGet
			if peek {
				n++
			}
			return fmt.Sprintf("pkg.get.%d", n)
		}
		return fmt.Sprintf("pkg.put.%d", w.pkgGet)
	case w.step == "sc" && kind == "StoreConfig" && put:
		return "sc.put"
	case w.step == "drc" && kind == "DeploymentRuntimeConfig" && put:
		return "drc.put"
	}
	return "other:" + w.step + ":" + verb + ":" + kind
}

// intercept decides the fate of a call: the scenario's fault hits the call
// with the chosen label (or the chosen real call index) of the chosen run.
func (w *world) intercept(c *simapi.Call) simapi.Decision {
	lab := w.label(c.Verb, c.Key.Kind, c.Key.Name, true)
	for i, f := range w.faults {
		if f.Run != w.run || w.fired[i] {
			continue
		}
		if f.At != lab && f.At != fmt.Sprintf("#%d", c.Idx) {
			continue
		}
		w.fired[i] = true
		w.injAt = lab
		if f.F == "rivalca" {
			// another actor completes the CA secret right before this write reaches the API server
			oth := material().rival
			data := map[string][]byte{"tls.crt": oth.crt, "tls.key": oth.key}
			k := simapi.Key{Kind: "Secret", Namespace: ns, Name: caName}
			if w.s.Peek(k) == nil {
				w.s.Put(secret(caName, data))
			} else {
				w.s.Mutate(k, func(u *unstructured.Unstructured) {
					_ = unstructured.SetNestedField(u.Object, base64.StdEncoding.EncodeToString(data["tls.crt"]), "data", "tls.crt")
					_ = unstructured.SetNestedField(u.Object, base64.StdEncoding.EncodeToString(data["tls.key"]), "data", "tls.key")
				})
			}
			w.inj = "fail"
			return simapi.Proceed
		}
		if f.F == "crashAfter" && c.Write {
			w.inj = "crashAfter"
			return simapi.CrashAfter
		}
		w.inj = "fail"
		switch f.How {
		case "conflict":
			return simapi.FailConflict
		case "crashBefore":
			return simapi.CrashBefore
		}
		return simapi.FailError
	}
	return simapi.Proceed
}

func (w *world) onEvent(e *simapi.Event) {
	if e.Outcome == "dropped" && e.Injected == "" {
		return
	}
	lab := w.label(e.Verb, e.Kind, e.Name, false)
	w.calls[lab]++
	if strings.HasPrefix(lab, "other:") {
		w.others[lab]++
	}
	if e.IsWrite() && e.Applied && !e.Noop && !e.DryRun {
		w.emit("write", map[string]any{"label": lab, "outcome": e.Outcome, "inj": orNone(e.Injected)})
	}
}

func orNone(s string) string {
	if s == "" {
		return "none"
	}
	return s
}

func (w *world) emit(ev string, m map[string]any) {
	if !w.record {
		return
	}
	base := map[string]any{"ev": ev, "scenario": w.scen, "run": w.run, "label": "none", "outcome": "none", "inj": "none",
		"result": "none", "calls": 0, "prevDx": w.prevDx, "prevDp": w.prevDp, "prevClean": w.prevValid && w.prevClean, "aborted": w.aborted,
		"in": w.raw, "P": w.proj(), "ref": map[string]any{"x": 0}}
	for k, v := range m {
		base[k] = v
	}
	w.events = append(w.events, base)
}

// doRun performs one complete run of the real Initializer.
func (w *world) doRun() string {
	w.run++
	w.inj, w.injAt, w.step = "", "", ""
	w.c.BeginReconcile()
	err := initializer.New(w.c, logging.NewNopLogger(), w.steps()...).Init(context.Background())
	res := "ok"
	if w.inj != "" {
		res = "aborted"
	} else if err != nil {
		res = "error"
	}
	ev := map[string]any{"result": res, "inj": orNone(w.inj), "label": orNone(w.injAt), "calls": w.c.Calls()}
	if res == "ok" && w.aborted && w.ref != nil {
		ev["ref"] = w.ref
	}
	w.emit("end", ev)
	w.prevDx, w.prevDp = w.digest()
	w.prevClean, w.prevValid = w.inj == "", true
	if w.inj != "" {
		w.aborted = true
	}
	return res
}

func mustYAML(y string, into any) {
	j, err := yamlToJSON([]byte(y))
	if err != nil {
		panic(err)
	}
	if err := json.Unmarshal(j, into); err != nil {
		panic(err)
	}
}

func sortedKeys(m map[string]int) []string {
	ks := make([]string, 0, len(m))
	for k := range m {
		ks = append(ks, k)
	}
	sort.Strings(ks)
	return ks
}
