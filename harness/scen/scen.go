// Package scen loads the scenarios TLC emits (one JSON value per line) and the
// summary a driver reports back to the check script.
package scen

import (
	"bufio"
	"encoding/json"
	"os"
)

// Load reads an NDJSON file into raw messages.
func Load(path string) ([]json.RawMessage, error) {
	f, err := os.Open(path)
	if err != nil {
		return nil, err
	}
	defer f.Close()
	var out []json.RawMessage
	sc := bufio.NewScanner(f)
	sc.Buffer(make([]byte, 1<<20), 1<<28)
	for sc.Scan() {
		b := sc.Bytes()
		if len(b) == 0 {
			continue
		}
		out = append(out, json.RawMessage(append([]byte(nil), b...)))
	}
	return out, sc.Err()
}

// WriteJSON writes v to path.
func WriteJSON(path string, v any) error {
	b, err := json.MarshalIndent(v, "", " ")
	if err != nil {
		return err
	}
	return os.WriteFile(path, b, 0o644)
}

// Str returns m[k] as a string ("" if absent or not a string).
func Str(m map[string]any, k string) string {
	s, _ := m[k].(string)
	return s
}
