SPECIFICATION Spec
CONSTANTS
  Fams = {"val1", "valx", "val2", "fam", "prov", "bind", "xrd"}
  G1 = {"g1", "g2", "", "*"}
  R1 = {"r1", "r1/status", "r2", "*", "*/status"}
  N1 = {"n1", "n2", "*"}
  V1 = {"get", "update", "*"}
  U1 = {"/a", "/a/b", "/a/*", "*"}
  GX = {"g1", "", "*"}
  RX = {"r1", "r1/status", "*"}
  NX = {"n1", "*"}
  VX = {"get", "*"}
  UX = {"/a", "/a/*", "*"}
  G2 = {"g1", "*"}
  R2 = {"r1", "*"}
  N2 = {"n1", "*"}
  V2 = {"get", "*"}
  U2 = {"/a", "*"}
  MemLabels = {"", "fa", "fb"}
  MemSrcTags = {"same", "digest", "implicit", "nested", "org", "orgpfx", "reg", "bad"}
  SelfSrcTags = {"same", "digest", "implicit", "orgpfx", "bad"}
ACTION_CONSTRAINT Emit
CHECK_DEADLOCK FALSE
INVARIANTS RefConsistent DesignSound DesignSystemRole
