SPECIFICATION Spec
CONSTANTS
  Syncer = "SSA"
  Pres <- PresFresh
  Cdps <- PolNone
  Xdefs <- PolNone
  Ofins <- OnlyFalse
  Rdys <- RdyNone
  Conn = TRUE
  MaxRecs = 2
  MaxFaults = 1
  MaxEnv = 1
  MidEnv = TRUE
  EnvKinds <- EnvDelete
  FaultKinds <- FaultsMiss
  FinFirst = TRUE
  RvCheck = TRUE
  FixDeleting = TRUE
  FixMiss = FALSE
  FixStale = FALSE
VIEW view
ACTION_CONSTRAINT Emit
CHECK_DEADLOCK FALSE
INVARIANTS NoOrphan
