#!/usr/bin/env python3
"""Anti-vacuity self test of the X09 check (run by hand: python3 checks/x09_selftest.py [mutant-name ...]).

1. the witness configurations of the model (a guard switched off / the code as it was before the repair of F-a / the
   code as written for observation O1 must violate the named invariant);
2. sanity mutants of the real code (pkg/signature/reconciler.go, pkg/revision/reconciler.go, xpkg/config.go), applied ONLY
   through `go build -overlay` on scratch copies under /verif/.work/X09/selftest (nothing is written to /repo): each must
   make MonSignature report the expected formulas (formulas that do not fire, or fire less often, on the unchanged tree);
   among them the revert of the repair a5e0931 of finding F-a (D33): its formulas must fire again;
3. seeded corruption of one recorded field of a real trace: MonSignature must reject exactly that line."""
import json
import os
import sys

sys.path.insert(0, os.path.dirname(os.path.dirname(os.path.abspath(__file__))))
import vlib  # noqa: E402
from checks import x09  # noqa: E402

SIG = "/repo/internal/controller/pkg/signature/reconciler.go"
REV = "/repo/internal/controller/pkg/revision/reconciler.go"
CFG = "/repo/internal/xpkg/config.go"
GATE = "\t\tif cond := pr.GetCondition(v1.TypeVerified); cond.Status != corev1.ConditionTrue {\n\t\t\tlog.Debug(\"Waiting for signature verification controller"
MUTANTS = [
    # (name, file, old text, new text, formulas that must fire)
    ("sig-verifies-inactive-revisions-too", SIG,
     "\tif pr.GetDesiredState() != v1.PackageRevisionActive {", "\tif pr.GetDesiredState() == \"\" {",
     ["Sig.Inactive.Calls", "Sig.Inactive.Exit"]),
    ("sig-evaluates-a-skipped-verdict-again", SIG,
     "\tif cond := pr.GetCondition(v1.TypeVerified); cond.Status == corev1.ConditionTrue {",
     "\tif cond := pr.GetCondition(v1.TypeVerified); cond.Status == corev1.ConditionTrue && cond.Reason == v1.ReasonVerificationSucceeded {",
     ["Sig.Final.Calls"]),
    ("verification-without-cosign-is-skipped-silently", CFG,
     "\t\treturn config.Name, nil, errors.New(\"cosign verification config is missing\")", "\t\treturn config.Name, nil, nil",
     ["Sig.Skipped.OnlyIfNoMatch", "Sig.NoCosign.Incomplete", "Select.Longest"]),
    ("imageconfig-first-match-instead-of-longest", CFG,
     "\t\t\tif strings.HasPrefix(image, m.Prefix) && len(m.Prefix) > longest {",
     "\t\t\tif strings.HasPrefix(image, m.Prefix) && longest == 0 {",
     ["Sig.Select.Longest", "Select.Longest"]),
    ("sig-config-secret-replaces-own-secrets", SIG,
     "\t\tpullSecrets = append(pullSecrets, s)", "\t\tpullSecrets = []string{s}",
     ["Sig.Validate.Secrets.OwnKept"]),
    ("sig-config-secret-dropped", SIG,
     "\tif s != \"\" {\n\t\tpullSecrets = append(pullSecrets, s)", "\tif s == \"-\" {\n\t\tpullSecrets = append(pullSecrets, s)",
     ["Sig.Validate.Secrets.Longest"]),
    ("sig-failed-validation-recorded-as-succeeded", SIG,
     "\t\tpr.SetConditions(v1.VerificationFailed(ic, err))", "\t\tpr.SetConditions(v1.VerificationSucceeded(ic))",
     ["Sig.Succeeded.NeedsValidation", "Sig.Failed.IffInvalid"]),
    ("sig-failed-validation-is-not-retried", SIG,
     "\t\treturn reconcile.Result{}, errors.Wrap(err, errFailedVerification)", "\t\treturn reconcile.Result{}, nil",
     ["Sig.Exit.Invalid", "Sig.Exit.Result"]),
    ("sig-list-error-skips-verification", SIG,
     "\t\tpr.SetConditions(v1.VerificationIncomplete(errors.Wrap(err, errGetVerificationConfig)))", "\t\tpr.SetConditions(v1.VerificationSkipped())",
     ["Sig.Skipped.OnlyIfNoMatch"]),
    ("gate-lets-a-missing-verdict-through", REV,
     GATE, GATE.replace("cond.Status != corev1.ConditionTrue", "cond.Status == corev1.ConditionFalse"),
     ["Gate.Closed.NoSeams", "Gate.Closed.Calls"]),
    ("gate-switched-off", REV,
     "\tif r.features.Enabled(features.EnableAlphaSignatureVerification) && pr.GetDesiredState() != v1.PackageRevisionInactive {",
     "\tif r.features.Enabled(features.EnableAlphaSignatureVerification) && pr.GetDesiredState() != v1.PackageRevisionInactive && pr.GetName() == \"\" {",
     ["Gate.Closed.NoSeams", "Gate.Closed.NoWrites", "Gate.Closed.Calls"]),
    ("gate-overwrites-health-of-an-installed-revision", REV,
     "\t\t\tif pr.GetCondition(v1.TypeHealthy).Status == corev1.ConditionUnknown {\n\t\t\t\tpr.SetConditions(v1.AwaitingVerification())",
     "\t\t\tif pr.GetCondition(v1.TypeHealthy).Status != corev1.ConditionFalse {\n\t\t\t\tpr.SetConditions(v1.AwaitingVerification())",
     ["Gate.Closed.Silent", "Gate.Closed.Await"]),
    ("gate-also-holds-back-deletion", REV,
     "\tif meta.WasDeleted(pr) {\n\t\t// NOTE(hasheddan): In the event that a pre-cached package was",
     "\tif meta.WasDeleted(pr) && (!r.features.Enabled(features.EnableAlphaSignatureVerification) || pr.GetCondition(v1.TypeVerified).Status == corev1.ConditionTrue) {\n\t\t// NOTE(hasheddan): In the event that a pre-cached package was",
     ["Gate.Deleting.NotGated"]),
    ("watch-enqueues-every-revision", SIG,
     "\t\t\t\tif strings.HasPrefix(p.GetSource(), m.Prefix) {", "\t\t\t\tif m.Prefix != \"-\" {",
     ["Enqueue.Exact"]),
    ("watch-ignores-configs-without-cosign-block", SIG,
     "\t\tif ic.Spec.Verification == nil {", "\t\tif ic.Spec.Verification == nil || ic.Spec.Verification.Cosign == nil {",
     ["Enqueue.Exact", "Enqueue.CoversSelected"]),
]
# the revert of the repair of finding F-a (a5e0931, D33): its formulas must fire again
MUTANTS += [
    ("revert-a5e0931-gate-also-holds-inactive-revisions", REV,
     "\tif r.features.Enabled(features.EnableAlphaSignatureVerification) && pr.GetDesiredState() != v1.PackageRevisionInactive {",
     "\tif r.features.Enabled(features.EnableAlphaSignatureVerification) {",
     ["Gate.Inactive.Deactivates", "Settled.Inactive.Deactivated", "Settled.Upgrade.NotBlocked"]),
]


def overlay_for(ctx, name, path, old, new):
    src = open(path).read()
    if src.count(old) != 1:
        raise SystemExit("mutant %s: anchor text occurs %d times in %s" % (name, src.count(old), path))
    d = os.path.join(ctx.work, "mutants", name)
    os.makedirs(d, exist_ok=True)
    mp = os.path.join(d, os.path.basename(path))
    with open(mp, "w") as f:
        f.write(src.replace(old, new))
    ov = os.path.join(d, "overlay.json")
    with open(ov, "w") as f:
        json.dump({"Replace": {path: mp}}, f)
    return ov


def judge(ctx, scs, vecs, overlay=None):
    if overlay:
        os.environ["VERIF_X09_OVERLAY"] = overlay
    else:
        os.environ.pop("VERIF_X09_OVERLAY", None)
    import shutil
    shutil.rmtree(os.path.join(ctx.work, "run"), ignore_errors=True)
    sub = ctx.sub("run")
    try:
        s, _, _ = x09.drive_and_judge(sub, scs, vecs, shards=6, counts=False)
    finally:
        os.environ.pop("VERIF_X09_OVERLAY", None)
    return s["violations_by_formula"], sub


def main():
    only = set(sys.argv[1:])
    ctx = vlib.Ctx("X09/selftest", "quick", 1)
    ok = True
    if not only:
        for name, expect in x09.WITNESS:
            mc = ctx.model_check(x09.MODULE, "%s_%s.cfg" % (x09.MODULE, name), sub="mc_" + name, workers=1, timeout=300, expect_violations=expect)
            print("model %-40s violated %s (expected %s)" % (name, mc["violated"], expect), flush=True)
    scs, vecs, _, _, _, _ = x09.emit_all(ctx, x09.QUICK, x09.VEC["quick"])
    scs = x09.regression() + scs
    vecs = x09.regression_vecs() + vecs
    base, sub = judge(ctx, scs, vecs)
    print("unchanged tree:", base, flush=True)
    for name, path, old, new, expect in MUTANTS:
        if only and name not in only:
            continue
        got, _ = judge(ctx, scs, vecs, overlay_for(ctx, name, path, old, new))
        raised = {f: n for f, n in got.items() if n > base.get(f, 0)}
        hit = all(f in raised for f in expect)
        ok &= hit
        print("mutant %-52s %s  new/raised: %s" % (name, "DETECTED" if hit else "MISSED (expected %s)" % expect, raised), flush=True)
    if only:
        print("selftest (subset)", "PASSED" if ok else "FAILED")
        return 0 if ok else 1

    # seeded corruption of recorded fields of a real trace (of the unchanged tree)
    base2, sub = judge(ctx, scs, vecs)
    files = x09.trace_files(os.path.join(sub.work, "trace.ndjson"))
    lines = open(files[0]).read().splitlines()
    corruptions = [
        ("Succeeded written although the validator refused", lambda p, e: e["ev"] == "call" and e["cls"] == "sstatus" and e["outcome"] == "ok"
         and e["post"]["rev"]["ver"]["st"] == "Succeeded", lambda e: e["val"].update(out="invalid"), "Sig.Succeeded.NeedsValidation"),
        ("Skipped although a verification config matched", lambda p, e: e["ev"] == "call" and e["cls"] == "sstatus" and e["outcome"] == "ok"
         and e["post"]["rev"]["ver"]["st"] == "Failed", lambda e: e["post"]["rev"]["ver"].update(st="Skipped", status="True", by="none"), "Sig.Skipped.OnlyIfNoMatch"),
        ("validator handed another config's section", lambda p, e: e["ev"] == "seam" and e["cls"] == "validate" and e["arg"]["cfg"] == "vb",
         lambda e: e["arg"].update(cfg="va"), "Sig.Select.Longest"),
        ("validator not handed the revision's own pull secrets", lambda p, e: e["ev"] == "seam" and e["cls"] == "validate" and len(e["seen"]["secs"]) == 2,
         lambda e: e["arg"].update(secrets=e["arg"]["secrets"][1:]), "Sig.Validate.Secrets.OwnKept"),
        ("establish behind a closed gate", lambda p, e: e["ev"] == "seam" and e["cls"] == "establish" and e["feat"] and e["seen"]["des"] == "Active",
         lambda e: e["seen"]["ver"].update(st="Failed"), "Gate.Closed.NoSeams"),
        ("verification controller touched the spec", lambda p, e: e["ev"] == "call" and e["cls"] == "sstatus" and e["applied"] and not e["noop"],
         lambda e: e["post"]["rev"].update(spec="0000"), "Sig.Writes.OnlyVerdict"),
        ("revision reconciler changed the verdict", lambda p, e: e["ev"] == "call" and e["actor"] == "rev" and e["cls"] == "status" and e["applied"] and not e["noop"]
         and not e["seen"]["pcond"] and e["post"]["rev"]["ver"]["st"] == "Skipped", lambda e: e["post"]["rev"]["ver"].update(st="Succeeded"), "Rev.KeepsVerdict"),
        ("verification controller asks to be polled", lambda p, e: e["ev"] == "end" and e["actor"] == "sig" and e["result"] == "ok",
         lambda e: e.update(after=60000), "Sig.Requeue.NeverPolls"),
        ("watch event enqueued a revision whose image does not match", lambda p, e: e["ev"] == "enq" and len(e["enq"]["reqs"]) == 0 and e["enq"]["revs"],
         lambda e: e["enq"].update(reqs=["r1"], nadds=1), "Enqueue.Exact"),
        ("aftermath left an Active revision without verdict", lambda p, e: e["ev"] == "settled" and e["feat"] and e["post"]["rev"]["ex"]
         and e["post"]["rev"]["des"] == "Active" and e["post"]["rev"]["ver"]["st"] == "Skipped", lambda e: e["post"]["rev"]["ver"].update(st="none"), "Settled.Verdict.Defined"),
    ]
    for what, pick, mutate, formula in corruptions:
        idx = None
        for i in range(1, len(lines)):
            if pick(json.loads(lines[i - 1]), json.loads(lines[i])):
                idx = i
                break
        if idx is None:
            ok = False
            print("corruption %-62s NO CANDIDATE LINE" % what)
            continue
        e = json.loads(lines[idx])
        mutate(e)
        lo = max(0, idx - 60)
        cp = os.path.join(ctx.work, "corrupt.ndjson")
        with open(cp, "w") as f:
            f.write("\n".join(lines[lo:idx] + [json.dumps(e)] + lines[idx + 1:idx + 60]) + "\n")
        viols, _ = ctx.monitor("MonSignature", cp)
        hit = any(f == formula and ln == idx - lo + 1 for f, ln, _ in viols)
        ok &= hit
        print("corruption %-62s line %d: %s" % (what, idx + 1, "REJECTED by " + formula if hit else "NOT NOTICED %s" % viols[:5]), flush=True)
    print("selftest", "PASSED" if ok else "FAILED")
    return 0 if ok else 1


if __name__ == "__main__":
    sys.exit(main())
