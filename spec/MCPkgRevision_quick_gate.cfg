SPECIFICATION Spec
CONSTANTS
  RTypes <- AllTypes
  Streams <- StreamsGate
  ConsIgn <- ConsAll
  Verifs <- VerifAll
  Cache0 <- CacheTwo
  MaxRecs = 2
  MaxFaults = 0
  MaxSig = 2
  MaxEnv = 1
  SrcFaults = FALSE
  StoreFaults <- NoStoreFaults
  DelFaults = FALSE
  ApiCrash = FALSE
  FixTee = TRUE
VIEW view
ACTION_CONSTRAINT Emit
CHECK_DEADLOCK FALSE
INVARIANTS Exact CacheSound Gate NoWellFormedPrefix
