---------------------------- MODULE MCXRCompose ----------------------------
EXTENDS XRCompose, Json
Emit == (pc # "idle" /\ pc' = "idle") => PrintT(<<"TRACE", ToJson(hist')>>)
AllFailKinds == {"fnerror", "fatal", "reqloop", "badinput", "nocreds"}
=============================================================================
