// Driver for spec/XrdLifecycle.tla (check X02): the real definition.Reconciler
// and offered.Reconciler run on one simapi store, each in its own goroutine,
// paused before every API call and every engine call (Stop, Start,
// StartWatches); a TLC schedule says which actor moves next, with which
// outcome, and where the environment acts (XRD edits, the API server marking a
// CRD Established, third parties editing / taking over / deleting a CRD, the
// deletion request). The engine is a recording engine implementing the
// contract stated in the spec header (C13 checks the real engine): Start of a
// running name and Stop of a stopped name are no-ops, failed calls have no
// effect, the engine dies with the process. It reads the GVK of every watch it
// is asked to start (reflection on engine.Watch) so that the trace says which
// version a controller really watches. ONE definition.Reconciler and ONE
// offered.Reconciler object live for the whole scenario (warm-up, every
// reconcile, the teardown inside a "recreate" step and the life of the
// re-created XRD), so anything they remembered of an earlier incarnation of the
// XRD would show. Go only records; every verdict is taken by
// spec/MonXrdLifecycle.tla.
package main

import (
	"context"
	"encoding/json"
	"errors"
	"flag"
	"fmt"
	"os"
	"reflect"
	"runtime/pprof"
	"strings"
	"time"
	"unsafe"

	corev1 "k8s.io/api/core/v1"
	extv1 "k8s.io/apiextensions-apiserver/pkg/apis/apiextensions/v1"
	metav1 "k8s.io/apimachinery/pkg/apis/meta/v1"
	"k8s.io/apimachinery/pkg/apis/meta/v1/unstructured"
	"k8s.io/apimachinery/pkg/runtime"
	"k8s.io/apimachinery/pkg/runtime/schema"
	"k8s.io/apimachinery/pkg/types"
	"k8s.io/utils/ptr"
	"sigs.k8s.io/controller-runtime/pkg/client"
	"sigs.k8s.io/controller-runtime/pkg/reconcile"

	v1 "github.com/crossplane/crossplane/apis/apiextensions/v1"
	"github.com/crossplane/crossplane/internal/controller/apiextensions/definition"
	"github.com/crossplane/crossplane/internal/controller/apiextensions/offered"
	"github.com/crossplane/crossplane/internal/engine"
	"github.com/crossplane/crossplane/internal/xcrd"
	"github.com/crossplane/crossplane/zzverif/scen"
	"github.com/crossplane/crossplane/zzverif/simapi"
	"github.com/crossplane/crossplane/zzverif/trace"
)

const (
	xrdName  = "xthings.ex.org"
	crdCName = "things.ex.org"
	finDef   = "defined.apiextensions.crossplane.io"
	finOff   = "offered.apiextensions.crossplane.io"
	finCRD   = "customresourcecleanup.apiextensions.k8s.io"
)

var (
	xrdKey = simapi.Key{Group: "apiextensions.crossplane.io", Kind: "CompositeResourceDefinition", Name: xrdName}
	crdKey = map[string]simapi.Key{
		"x": {Group: "apiextensions.k8s.io", Kind: "CustomResourceDefinition", Name: xrdName},
		"c": {Group: "apiextensions.k8s.io", Kind: "CustomResourceDefinition", Name: crdCName},
	}
	ownKind = map[string]string{"x": "XThing", "c": "Thing"}
	sideOf  = map[string]string{"def": "x", "off": "c"}
	actors  = []string{"def", "off"}
)

type actor struct {
	name    string
	w       string // "x" | "c"
	c       *simapi.Client
	rec     func() (reconcile.Result, error)
	running bool
	at      chan string // "gate:<abs>" or "done"
	release chan string // decision
	pending string
	recNo   int
	res     reconcile.Result
	err     error
	quiet   bool // no environment step since this reconcile began
	faulty  bool // a fault was injected in this reconcile
	settled bool // the last reconcile returned done, quiet, fault-free, and nothing happened since
	sb      bool // settled when this reconcile began
	lastAbs string
	seen    map[string]any
}

type world struct {
	s       *simapi.Server
	tw      *trace.Writer
	scen    string
	actors  map[string]*actor
	run     map[string]bool
	wver    map[string]string
	cache   map[string]cached
	warm    bool // warm-up: nothing is gated or recorded
	variant string
	drift   int
	driftBy map[string]int
	hung    bool
}

// ---- the recording engine
type recEngine struct {
	w *world
	a *actor
	c client.Client
}

func sideOfName(name string) string {
	if strings.HasPrefix(name, "claim/") {
		return "c"
	}
	return "x"
}

// engineCall gates an engine call; it returns false if the call must fail without effect.
func (e *recEngine) engineCall(abs string) bool {
	if e.a.c.Dead() {
		return false
	}
	if e.w.warm {
		return true
	}
	d := e.w.gate(e.a, abs)
	if d != "ok" {
		e.a.faulty = true
		e.w.emitCall(e.a, abs, "engine", "error", "error", false, false)
		return false
	}
	return true
}

func (e *recEngine) Start(name string, _ ...engine.ControllerOption) error {
	if !e.engineCall("start") {
		return errors.New("injected engine error")
	}
	s := sideOfName(name)
	changed := !e.w.run[s]
	e.w.run[s] = true
	e.a.seen["started"] = true
	if !e.w.warm {
		e.w.emitCall(e.a, "start", "engine", "ok", "", changed, !changed)
	}
	return nil
}

func (e *recEngine) Stop(_ context.Context, name string) error {
	if !e.engineCall("stop") {
		return errors.New("injected engine error")
	}
	s := sideOfName(name)
	changed := e.w.run[s]
	e.w.run[s], e.w.wver[s] = false, "none"
	if !e.w.warm {
		e.w.emitCall(e.a, "stop", "engine", "ok", "", changed, !changed)
	}
	return nil
}

func (e *recEngine) IsRunning(name string) bool {
	if e.a.c.Dead() {
		return false
	}
	return e.w.run[sideOfName(name)]
}

// watchGVK reads the unexported kind of an engine.Watch.
func watchGVK(w engine.Watch) schema.GroupVersionKind {
	defer func() { _ = recover() }()
	f := reflect.ValueOf(&w).Elem().FieldByName("kind")
	if !f.IsValid() {
		return schema.GroupVersionKind{}
	}
	o := reflect.NewAt(f.Type(), unsafe.Pointer(f.UnsafeAddr())).Elem().Interface()
	if u, ok := o.(*unstructured.Unstructured); ok && u != nil {
		return u.GroupVersionKind()
	}
	return schema.GroupVersionKind{}
}

func (e *recEngine) StartWatches(name string, ws ...engine.Watch) error {
	s := sideOfName(name)
	if !e.engineCall("watches") {
		return errors.New("injected engine error")
	}
	if !e.w.run[s] {
		if !e.w.warm {
			e.w.emitCall(e.a, "watches", "engine", "error", "", false, false)
		}
		return fmt.Errorf("controller %q is not running", name)
	}
	changed := false
	if e.w.wver[s] == "none" { // idempotent: an existing watch is kept
		ver := "unknown"
		for _, w := range ws {
			if g := watchGVK(w); g.Kind == ownKind[s] {
				ver = g.Version
			}
		}
		e.w.wver[s] = ver
		changed = true
	}
	if !e.w.warm {
		e.w.emitCall(e.a, "watches", "engine", "ok", "", changed, !changed)
	}
	return nil
}
func (e *recEngine) GetWatches(string) ([]engine.WatchID, error)                          { return nil, nil }
func (e *recEngine) StopWatches(context.Context, string, ...engine.WatchID) (int, error) { return 0, nil }
func (e *recEngine) GetCached() client.Client                                             { return e.c }
func (e *recEngine) GetUncached() client.Client                                           { return e.c }
func (e *recEngine) GetFieldIndexer() client.FieldIndexer                                 { return nil }

// ---- gates
func (w *world) gate(a *actor, abs string) string {
	a.at <- "gate:" + abs
	return <-a.release
}

func classify(c *simapi.Call) string {
	verb := c.Verb
	if strings.HasPrefix(verb, "patch") {
		verb = "patch"
	}
	switch c.Key.Kind {
	case "CompositeResourceDefinition":
		if c.Sub == "status" {
			return "status:xrd"
		}
		return verb + ":xrd"
	case "CustomResourceDefinition":
		return verb + ":crd"
	}
	return verb + ":" + strings.ToLower(c.Key.Kind)
}

// ---- projection
func has(ss []string, s string) bool {
	for _, x := range ss {
		if x == s {
			return true
		}
	}
	return false
}

func verOfAPIVersion(av string) string {
	if av == "" {
		return "none"
	}
	if i := strings.LastIndex(av, "/"); i >= 0 {
		return av[i+1:]
	}
	return av
}

func schemaHasExtra(ver map[string]any) bool {
	_, ok, _ := unstructured.NestedMap(ver, "schema", "openAPIV3Schema", "properties", "spec", "properties", "extra")
	return ok
}

func projXRD(x *unstructured.Unstructured) map[string]any {
	out := map[string]any{"ex": false, "del": false, "ver": "none", "s": 0, "claim": false, "fd": false, "fo": false,
		"condx": "none", "condc": "none", "typex": "none", "typec": "none"}
	if x == nil {
		return out
	}
	out["ex"], out["del"] = true, x.GetDeletionTimestamp() != nil
	out["fd"], out["fo"] = has(x.GetFinalizers(), finDef), has(x.GetFinalizers(), finOff)
	vs, _, _ := unstructured.NestedSlice(x.Object, "spec", "versions")
	for i, v := range vs {
		vm, _ := v.(map[string]any)
		if r, _ := vm["referenceable"].(bool); r {
			out["ver"], _ = vm["name"].(string)
		}
		if i == 0 && schemaHasExtra(vm) {
			out["s"] = 1
		}
	}
	_, out["claim"], _ = unstructured.NestedMap(x.Object, "spec", "claimNames")
	cs, _, _ := unstructured.NestedSlice(x.Object, "status", "conditions")
	for _, c := range cs {
		cm, _ := c.(map[string]any)
		switch cm["type"] {
		case "Established":
			out["condx"], _ = cm["status"].(string)
		case "Offered":
			out["condc"], _ = cm["status"].(string)
		}
	}
	tx, _, _ := unstructured.NestedString(x.Object, "status", "controllers", "compositeResourceType", "apiVersion")
	tc, _, _ := unstructured.NestedString(x.Object, "status", "controllers", "compositeResourceClaimType", "apiVersion")
	out["typex"], out["typec"] = verOfAPIVersion(tx), verOfAPIVersion(tc)
	return out
}

func projCRD(o *unstructured.Unstructured, xuid types.UID, side string) map[string]any {
	out := map[string]any{"st": "none", "ctrl": "none", "ver": "none", "s": 0, "t": false, "est": false}
	if o == nil {
		return out
	}
	out["st"] = "live"
	if o.GetDeletionTimestamp() != nil {
		out["st"] = "deleting"
	}
	if c := metav1.GetControllerOf(o); c != nil {
		out["ctrl"] = "foreign"
		if c.UID == xuid && xuid != "" {
			out["ctrl"] = "xrd"
		}
	}
	vs, _, _ := unstructured.NestedSlice(o.Object, "spec", "versions")
	for i, v := range vs {
		vm, _ := v.(map[string]any)
		if r, _ := vm["storage"].(bool); r {
			out["ver"], _ = vm["name"].(string)
		}
		if i == 0 && schemaHasExtra(vm) {
			out["s"] = 1
		}
	}
	// anything in the spec's names that the rendering would not have put there counts as tampering
	sn, _, _ := unstructured.NestedStringSlice(o.Object, "spec", "names", "shortNames")
	kind, _, _ := unstructured.NestedString(o.Object, "spec", "names", "kind")
	cats, _, _ := unstructured.NestedStringSlice(o.Object, "spec", "names", "categories")
	wantCat := map[string]string{"x": "composite", "c": "claim"}[side]
	out["t"] = len(sn) > 0 || kind != ownKind[side] || !has(cats, wantCat)
	cs, _, _ := unstructured.NestedSlice(o.Object, "status", "conditions")
	for _, c := range cs {
		cm, _ := c.(map[string]any)
		if cm["type"] == "Established" {
			out["est"] = cm["status"] == "True"
		}
	}
	return out
}

// post is the projected abstract state. Projections are cached by resourceVersion (projecting a CRD is the
// expensive part of an event).
func (w *world) post() map[string]any {
	out := map[string]any{"runx": w.run["x"], "runc": w.run["c"], "wverx": w.wver["x"], "wverc": w.wver["c"]}
	w.s.Read(func(_ []simapi.Key, objs map[simapi.Key]*unstructured.Unstructured) {
		x := objs[xrdKey]
		var xuid types.UID
		if x != nil {
			xuid = x.GetUID()
		}
		get := func(name string, o *unstructured.Unstructured, f func() map[string]any) map[string]any {
			sig := "absent"
			if o != nil {
				sig = o.GetResourceVersion() + "/" + string(xuid)
			}
			if c, ok := w.cache[name]; ok && c.sig == sig {
				return c.val
			}
			v := f()
			w.cache[name] = cached{sig: sig, val: v}
			return v
		}
		out["xrd"] = get("xrd", x, func() map[string]any { return projXRD(x) })
		for _, side := range []string{"x", "c"} {
			o := objs[crdKey[side]]
			out["crd"+side] = get("crd"+side, o, func() map[string]any { return projCRD(o, xuid, side) })
		}
	})
	return out
}

type cached struct {
	sig string
	val map[string]any
}

func (w *world) xuid() types.UID {
	if x := w.s.Peek(xrdKey); x != nil {
		return x.GetUID()
	}
	return ""
}

func newSeen() map[string]any {
	return map[string]any{"got": false, "ex": false, "del": false, "ver": "none", "s": 0, "claim": false, "fin": false, "type": "none",
		"crd": "unread", "started": false, "applied": false, "ast": "none", "actrl": "none", "aver": "none", "as": 0, "at": false, "aest": false}
}

func copyMap(m map[string]any) map[string]any {
	out := make(map[string]any, len(m))
	for k, v := range m {
		out[k] = v
	}
	return out
}

func (w *world) emit(ev string, a *actor, m map[string]any) {
	base := map[string]any{"ev": ev, "scenario": w.scen, "actor": "env", "w": "", "rec": 0, "abs": "", "kind": "", "outcome": "", "injected": "",
		"applied": false, "noop": false, "result": "", "quiet": false, "faulty": false, "sb": false, "seen": newSeen(), "post": w.post()}
	if a != nil {
		base["actor"], base["w"], base["rec"], base["quiet"], base["faulty"], base["sb"], base["seen"] = a.name, a.w, a.recNo, a.quiet, a.faulty, a.sb, copyMap(a.seen)
	}
	for k, v := range m {
		base[k] = v
	}
	w.tw.Emit(base)
}

func (w *world) emitCall(a *actor, abs, kind, outcome, injected string, applied, noop bool) {
	w.emit("call", a, map[string]any{"abs": abs, "kind": kind, "outcome": outcome, "injected": injected, "applied": applied, "noop": noop})
}

// onEvent records one API call of an actor, after updating what the actor has seen so far in this reconcile.
func (w *world) onEvent(e *simapi.Event) {
	a := w.actors[e.Actor]
	if a == nil || w.warm {
		return
	}
	if e.Outcome == "dropped" && e.Injected == "" {
		return
	}
	abs := a.lastAbs
	kind := map[string]string{"CompositeResourceDefinition": "xrd", "CustomResourceDefinition": "crd"}[e.Kind]
	side := ""
	if e.Kind == "CustomResourceDefinition" {
		side = "x"
		if e.Name == crdCName {
			side = "c"
		}
	}
	p := w.post()
	switch {
	case abs == "get:xrd" && e.Outcome == "ok":
		x := p["xrd"].(map[string]any)
		a.seen["got"], a.seen["ex"], a.seen["del"], a.seen["ver"], a.seen["s"], a.seen["claim"] = true, true, x["del"], x["ver"], x["s"], x["claim"]
		a.seen["fin"] = x[map[string]string{"x": "fd", "c": "fo"}[a.w]]
		a.seen["type"] = x["type"+a.w]
	case abs == "get:crd" && (e.Outcome == "ok" || e.Outcome == "notfound"):
		c := p["crd"+side].(map[string]any)
		switch {
		case e.Outcome == "notfound":
			a.seen["crd"] = "absent"
		case c["ctrl"] == "xrd":
			a.seen["crd"] = "own"
		case c["ctrl"] == "foreign":
			a.seen["crd"] = "foreign"
		default:
			a.seen["crd"] = "free"
		}
	case (abs == "create:crd" || abs == "update:crd" || abs == "patch:crd") && e.Outcome == "ok":
		// the state the reconcile's Apply left (or found) the CRD in
		c := projCRD(e.PostObj, w.xuid(), side)
		a.seen["applied"], a.seen["ast"], a.seen["actrl"], a.seen["aver"], a.seen["as"], a.seen["at"], a.seen["aest"] = true, c["st"], c["ctrl"], c["ver"], c["s"], c["t"], c["est"]
	}
	w.emit("call", a, map[string]any{"abs": abs, "kind": kind, "outcome": e.Outcome, "injected": e.Injected,
		"applied": e.Applied && !e.DryRun, "noop": e.Noop, "w": firstNonEmpty(side, a.w), "post": p})
}

func firstNonEmpty(a, b string) string {
	if a != "" {
		return a
	}
	return b
}

// ---- world construction
// xrdObject is a new XRD (generation 1, no uid yet) with the given referenceable version, schema variant and claim names.
func xrdObject(claim bool, ver string, sv int) *v1.CompositeResourceDefinition {
	xrd := &v1.CompositeResourceDefinition{ObjectMeta: metav1.ObjectMeta{Name: xrdName, Generation: 1}}
	xrd.Spec.Group = "ex.org"
	xrd.Spec.Names = extv1.CustomResourceDefinitionNames{Kind: "XThing", Plural: "xthings", Singular: "xthing", ListKind: "XThingList"}
	if claim {
		xrd.Spec.ClaimNames = claimNames()
	}
	raw := []byte(`{"type":"object","properties":{"spec":{"type":"object","properties":{"size":{"type":"string"}}}}}`)
	if sv == 1 {
		raw = []byte(`{"type":"object","properties":{"spec":{"type":"object","properties":{"extra":{"type":"string"},"size":{"type":"string"}}}}}`)
	}
	xrd.Spec.Versions = []v1.CompositeResourceDefinitionVersion{
		{Name: "v1", Served: true, Referenceable: ver == "v1", Schema: &v1.CompositeResourceValidation{OpenAPIV3Schema: runtime.RawExtension{Raw: raw}}},
		{Name: "v2", Served: true, Referenceable: ver == "v2", Schema: &v1.CompositeResourceValidation{OpenAPIV3Schema: runtime.RawExtension{Raw: raw}}},
	}
	return xrd
}

func claimNames() *extv1.CustomResourceDefinitionNames {
	return &extv1.CustomResourceDefinitionNames{Kind: "Thing", Plural: "things", Singular: "thing", ListKind: "ThingList"}
}

func established() []any {
	return []any{map[string]any{"type": "NamesAccepted", "status": "True", "reason": "NoConflicts", "message": "", "lastTransitionTime": "2024-01-01T00:00:00Z"},
		map[string]any{"type": "Established", "status": "True", "reason": "InitialNamesAccepted", "message": "", "lastTransitionTime": "2024-01-01T00:00:00Z"}}
}

func newWorld(tw *trace.Writer, id, state string, claim bool, crdx, variant string) *world {
	sch := runtime.NewScheme()
	_ = v1.AddToScheme(sch)
	_ = extv1.AddToScheme(sch)
	_ = corev1.AddToScheme(sch)
	s := simapi.NewServer(sch)
	w := &world{s: s, tw: tw, scen: id, actors: map[string]*actor{}, run: map[string]bool{"x": false, "c": false},
		wver: map[string]string{"x": "none", "c": "none"}, variant: variant, driftBy: map[string]int{}, cache: map[string]cached{}}
	xrd := xrdObject(claim, "v1", 0)
	xu := s.Put(xrd)
	xrd.SetUID(xu.GetUID())
	if crdx == "foreign" || crdx == "free" {
		// a CRD with the derived name exists already: controlled by somebody else, or by nobody
		c, err := xcrd.ForCompositeResource(xrd)
		if err != nil {
			panic(err)
		}
		c.OwnerReferences = nil
		if crdx == "foreign" {
			c.OwnerReferences = []metav1.OwnerReference{{APIVersion: "apiextensions.crossplane.io/v1", Kind: "CompositeResourceDefinition", Name: "other", UID: "foreign-uid", Controller: ptr.To(true)}}
		}
		s.Put(c)
		s.Mutate(crdKey["x"], func(u *unstructured.Unstructured) { _ = unstructured.SetNestedSlice(u.Object, established(), "status", "conditions") })
	}
	engClient := simapi.NewClient(s, "engine")
	req := reconcile.Request{NamespacedName: types.NamespacedName{Name: xrdName}}
	for _, n := range actors {
		a := &actor{name: n, w: sideOf[n], c: simapi.NewClient(s, n), seen: newSeen()}
		a.c.Intercept = func(c *simapi.Call) simapi.Decision {
			abs := classify(c)
			a.lastAbs = abs
			if w.warm {
				return simapi.Proceed
			}
			d := w.gate(a, abs)
			dec := simapi.Proceed
			switch d {
			case "error":
				dec = simapi.FailError
			case "conflict":
				dec = simapi.FailConflict
			case "crashBefore":
				dec = simapi.CrashBefore
			case "crashAfter":
				dec = simapi.CrashAfter
			case "miss":
				dec = simapi.CacheMiss
			}
			if dec != simapi.Proceed {
				a.faulty = true
			}
			return dec
		}
		w.actors[n] = a
	}
	def, off := w.actors["def"], w.actors["off"]
	// the production wiring: NewClientApplicator = client + APIUpdatingApplicator
	dr := definition.NewReconciler(definition.NewClientApplicator(def.c), definition.WithControllerEngine(&recEngine{w: w, a: def, c: engClient}))
	def.rec = func() (reconcile.Result, error) { return dr.Reconcile(context.Background(), req) }
	or := offered.NewReconciler(offered.NewClientApplicator(off.c), offered.WithControllerEngine(&recEngine{w: w, a: off, c: engClient}))
	off.rec = func() (reconcile.Result, error) { return or.Reconcile(context.Background(), req) }
	s.OnEvent = w.onEvent

	// warm-up: the real reconcilers bring the world to the initial configuration, unrecorded
	w.warm = true
	warm := func(a *actor) {
		a.c.BeginReconcile()
		if _, err := a.rec(); err != nil {
			panic(fmt.Sprintf("warm-up reconcile of %s failed: %v", a.name, err))
		}
	}
	if state == "created" || state == "settled" {
		warm(def)
		w.establish("x")
		if claim {
			warm(off)
			w.establish("c")
		}
	}
	if state == "settled" {
		warm(def)
		if claim {
			warm(off)
		}
	}
	w.warm = false
	return w
}

func (w *world) establish(side string) {
	w.s.Mutate(crdKey[side], func(u *unstructured.Unstructured) { _ = unstructured.SetNestedSlice(u.Object, established(), "status", "conditions") })
}

// recreate: the user deletes the XRD, the SAME long-lived reconcilers run their deletion branches to the end
// (unrecorded, ungated: that path is module Teardown's), Kubernetes lets deleted CRDs go, and the user creates an XRD
// of the same name with another spec: a new object with a new uid and generation 1. spec = "<ver>:<s>:<claim|noclaim>".
func (w *world) recreate(spec string) bool {
	f := strings.Split(spec, ":")
	if len(f) != 3 {
		panic("bad recreate step " + spec)
	}
	w.warm = true
	defer func() { w.warm = false }()
	w.s.MarkDeleted(xrdKey)
	for round := 0; round < 8 && w.s.Peek(xrdKey) != nil; round++ {
		for _, n := range actors {
			a := w.actors[n]
			a.c.BeginReconcile()
			_, _ = a.rec()
		}
		for _, k := range crdKey {
			w.s.Mutate(k, func(u *unstructured.Unstructured) {
				if u.GetDeletionTimestamp() != nil {
					u.SetFinalizers(nil)
				}
			})
		}
	}
	if w.s.Peek(xrdKey) != nil {
		return false
	}
	sv := 0
	if f[1] == "1" {
		sv = 1
	}
	w.s.Put(xrdObject(f[2] == "claim", f[0], sv))
	return true
}

// ---- environment
func (w *world) env(k string) {
	for _, a := range w.actors {
		a.quiet, a.settled = false, false
	}
	parts := strings.SplitN(k, ":", 2)
	side := ""
	if len(parts) == 2 {
		side = parts[1]
	}
	switch parts[0] {
	case "ver":
		w.s.Mutate(xrdKey, func(u *unstructured.Unstructured) {
			vs, _, _ := unstructured.NestedSlice(u.Object, "spec", "versions")
			for _, v := range vs {
				vm := v.(map[string]any)
				r, _ := vm["referenceable"].(bool)
				vm["referenceable"] = !r
			}
			_ = unstructured.SetNestedSlice(u.Object, vs, "spec", "versions")
			u.SetGeneration(u.GetGeneration() + 1)
		})
	case "s":
		w.s.Mutate(xrdKey, func(u *unstructured.Unstructured) {
			vs, _, _ := unstructured.NestedSlice(u.Object, "spec", "versions")
			for _, v := range vs {
				vm := v.(map[string]any)
				if schemaHasExtra(vm) {
					unstructured.RemoveNestedField(vm, "schema", "openAPIV3Schema", "properties", "spec", "properties", "extra")
				} else {
					_ = unstructured.SetNestedMap(vm, map[string]any{"type": "string"}, "schema", "openAPIV3Schema", "properties", "spec", "properties", "extra")
				}
			}
			_ = unstructured.SetNestedSlice(u.Object, vs, "spec", "versions")
			u.SetGeneration(u.GetGeneration() + 1)
		})
	case "claimOn":
		w.s.Mutate(xrdKey, func(u *unstructured.Unstructured) {
			_ = unstructured.SetNestedMap(u.Object, map[string]any{"kind": "Thing", "plural": "things", "singular": "thing", "listKind": "ThingList"}, "spec", "claimNames")
			u.SetGeneration(u.GetGeneration() + 1)
		})
	case "claimOff":
		w.s.Mutate(xrdKey, func(u *unstructured.Unstructured) {
			unstructured.RemoveNestedField(u.Object, "spec", "claimNames")
			u.SetGeneration(u.GetGeneration() + 1)
		})
	case "recreate":
		if !w.recreate(side) {
			w.noteDrift("recreate-stuck")
		}
	case "xrddel":
		w.s.MarkDeleted(xrdKey)
	case "est":
		w.establish(side)
	case "unest":
		w.s.Mutate(crdKey[side], func(u *unstructured.Unstructured) {
			_ = unstructured.SetNestedSlice(u.Object, []any{map[string]any{"type": "NamesAccepted", "status": "False", "reason": "Conflict", "message": "", "lastTransitionTime": "2024-01-01T00:00:00Z"},
				map[string]any{"type": "Established", "status": "False", "reason": "NotAccepted", "message": "", "lastTransitionTime": "2024-01-01T00:00:00Z"}}, "status", "conditions")
		})
	case "tamper":
		w.s.Mutate(crdKey[side], func(u *unstructured.Unstructured) {
			_ = unstructured.SetNestedStringSlice(u.Object, []string{"tampered"}, "spec", "names", "shortNames")
		})
	case "grab":
		w.s.Mutate(crdKey[side], func(u *unstructured.Unstructured) {
			u.SetOwnerReferences([]metav1.OwnerReference{{APIVersion: "apiextensions.crossplane.io/v1", Kind: "CompositeResourceDefinition", Name: "other", UID: "foreign-uid", Controller: ptr.To(true)}})
		})
	case "crddel":
		// the API server adds its clean-up finalizer when a CRD is deleted and removes the CRD once the instances are gone
		w.s.Mutate(crdKey[side], func(u *unstructured.Unstructured) { u.SetFinalizers(append(u.GetFinalizers(), finCRD)) })
		w.s.MarkDeleted(crdKey[side])
	case "crdgone":
		w.s.Mutate(crdKey[side], func(u *unstructured.Unstructured) {
			if u.GetDeletionTimestamp() != nil {
				u.SetFinalizers(nil)
			}
		})
	default:
		panic("unknown env step " + k)
	}
	w.emit("env", nil, map[string]any{"abs": k, "w": side})
}

// ---- scheduler
type entry struct {
	T string `json:"t"`
	A string `json:"a"`
	K string `json:"k"`
	F string `json:"f"`
}

func (w *world) waitFor(a *actor) (string, bool) {
	select {
	case m := <-a.at:
		return m, true
	case <-time.After(60 * time.Second):
		return "", false
	}
}

func (w *world) endOf(a *actor, crashed bool) {
	a.running, a.pending = false, ""
	res := "done"
	switch {
	case crashed || a.c.Dead():
		res = "crashed"
	case a.err != nil:
		res = "error"
	case a.res.Requeue || a.res.RequeueAfter > 0:
		res = "requeue"
	}
	a.settled = res == "done" && a.quiet && !a.faulty
	w.emit("end", a, map[string]any{"result": res})
}

func (w *world) begin(a *actor) bool {
	a.running, a.quiet, a.faulty, a.sb, a.seen = true, true, false, a.settled, newSeen()
	a.recNo++
	a.at, a.release = make(chan string, 1), make(chan string, 1)
	a.c.BeginReconcile()
	go func() {
		a.res, a.err = a.rec()
		a.at <- "done"
	}()
	m, ok := w.waitFor(a)
	if !ok {
		w.hung = true
		return false
	}
	if m == "done" {
		w.endOf(a, false)
		return false
	}
	a.pending = strings.TrimPrefix(m, "gate:")
	return true
}

// decision translates a model outcome into what the gate answers.
func (w *world) decision(f, abs string) string {
	switch f {
	case "ok", "":
		return "ok"
	case "fail":
		write := strings.HasPrefix(abs, "update:") || strings.HasPrefix(abs, "create:") || strings.HasPrefix(abs, "status:") || strings.HasPrefix(abs, "patch:") || strings.HasPrefix(abs, "delete:")
		if w.variant == "conflict" && write {
			return "conflict"
		}
		return "error"
	}
	return f // crashBefore, crashAfter, miss
}

// crash: the process died in actor a's call; the other reconcile dies with it and the engine forgets everything.
func (w *world) crash(a *actor) {
	for _, n := range actors {
		b := w.actors[n]
		if b != a && b.running {
			b.faulty = true
			b.release <- "crashBefore"
			for {
				m, ok := w.waitFor(b)
				if !ok {
					w.hung = true
					return
				}
				if m == "done" {
					break
				}
				b.release <- "crashBefore"
			}
			w.run, w.wver = map[string]bool{"x": false, "c": false}, map[string]string{"x": "none", "c": "none"}
			w.endOf(b, true)
		}
	}
	w.run, w.wver = map[string]bool{"x": false, "c": false}, map[string]string{"x": "none", "c": "none"}
	for _, b := range w.actors {
		b.settled = false
	}
}

func (w *world) noteDrift(k string) {
	w.drift++
	w.driftBy[k]++
}

// advance lets actor e.A perform the call the model entry names.
func (w *world) advance(e entry) {
	a := w.actors[e.A]
	if a == nil {
		panic("unknown actor " + e.A)
	}
	if !a.running {
		if e.K != "get:xrd" {
			w.noteDrift("-" + e.A + "." + e.K) // the model expects the reconcile to go on, the real one has returned
			return
		}
		if !w.begin(a) {
			w.noteDrift("-" + e.A + "." + e.K)
			return
		}
	}
	d := "ok"
	if a.pending == e.K {
		d = w.decision(e.F, e.K)
	} else {
		w.noteDrift("+" + e.A + "." + a.pending + "/" + e.K)
	}
	a.release <- d
	m, ok := w.waitFor(a)
	if !ok {
		w.hung = true
		return
	}
	crashed := d == "crashBefore" || d == "crashAfter"
	if m == "done" {
		if crashed {
			w.run, w.wver = map[string]bool{"x": false, "c": false}, map[string]string{"x": "none", "c": "none"}
		}
		w.endOf(a, crashed)
		if crashed {
			w.crash(a)
		}
		return
	}
	a.pending = strings.TrimPrefix(m, "gate:")
}

// finish lets every paused reconcile run to its end.
func (w *world) finish() {
	for _, n := range actors {
		a := w.actors[n]
		for a.running && !w.hung {
			a.release <- "ok"
			m, ok := w.waitFor(a)
			if !ok {
				w.hung = true
				return
			}
			if m == "done" {
				w.endOf(a, false)
			}
		}
	}
}

type summary struct {
	Scenarios int            `json:"scenarios"`
	Runs      int            `json:"runs"`
	Steps     int            `json:"steps"`
	Events    int            `json:"events"`
	Drift     int            `json:"drift"`
	DriftRuns int            `json:"drift_runs"`
	DriftBy   map[string]int `json:"drift_by"`
	Hung      int            `json:"hung"`
	Counts    map[string]int `json:"counts"`
	Samples   []any          `json:"samples"`
}

func run(tw *trace.Writer, id string, hist []entry, variant string, extra int, sum *summary) {
	tw.Boundary()
	w := newWorld(tw, id, hist[0].K, hist[0].F == "claim", hist[0].A, variant)
	w.emit("reset", nil, nil)
	for _, e := range hist[1:] {
		sum.Steps++
		switch e.T {
		case "env":
			w.env(e.K)
		case "call":
			w.advance(e)
		}
		if w.hung {
			break
		}
	}
	if !w.hung {
		w.finish()
	}
	// fault-free reconciles after the schedule (replay files of sweeps / regression scenarios)
	for i := 0; i < extra && !w.hung; i++ {
		for _, n := range actors {
			if x := w.s.Peek(xrdKey); x == nil || x.GetDeletionTimestamp() != nil {
				break
			}
			a := w.actors[n]
			if w.begin(a) {
				w.finish()
			}
		}
	}
	if w.hung {
		sum.Hung++
		w.emit("hung", nil, nil)
		fmt.Fprintf(os.Stderr, "scenario %s hung\n", id)
		return
	}
	sum.Runs++
	sum.Drift += w.drift
	if w.drift > 0 {
		sum.DriftRuns++
	}
	for k, v := range w.driftBy {
		sum.DriftBy[k] += v
	}
}

func main() {
	scenarios := flag.String("scenarios", "", "NDJSON file of TLC schedules")
	tracePath := flag.String("trace", "", "output trace")
	sumPath := flag.String("summary", "", "output summary JSON")
	chunk := flag.Int("chunk", 0, "split the trace into files of about this many events")
	prof := flag.String("cpuprofile", "", "write a CPU profile")
	flag.Parse()
	if *prof != "" {
		f, _ := os.Create(*prof)
		_ = pprof.StartCPUProfile(f)
		defer pprof.StopCPUProfile()
	}
	raws, err := scen.Load(*scenarios)
	if err != nil {
		fmt.Fprintln(os.Stderr, err)
		os.Exit(2)
	}
	tw, err := trace.New(*tracePath, *chunk)
	if err != nil {
		fmt.Fprintln(os.Stderr, err)
		os.Exit(2)
	}
	sum := &summary{DriftBy: map[string]int{}}
	for _, raw := range raws {
		var sc struct {
			ID      string  `json:"id"`
			Hist    []entry `json:"hist"`
			Variant string  `json:"variant"`
			Extra   int     `json:"extra"`
		}
		if err := json.Unmarshal(raw, &sc); err != nil || len(sc.Hist) == 0 || sc.Hist[0].T != "init" {
			fmt.Fprintln(os.Stderr, "bad scenario:", err)
			os.Exit(2)
		}
		sum.Scenarios++
		if len(sum.Samples) < 2 {
			sum.Samples = append(sum.Samples, json.RawMessage(raw))
		}
		if sc.Variant != "" {
			run(tw, sc.ID, sc.Hist, sc.Variant, sc.Extra, sum) // a replay file: exactly what it says
			continue
		}
		// every realisation of a model "fail" on a write: an error value AND a Conflict
		failsOnWrite := false
		for _, e := range sc.Hist {
			if e.F == "fail" && e.T == "call" && (strings.HasPrefix(e.K, "update:") || strings.HasPrefix(e.K, "create:") || strings.HasPrefix(e.K, "status:")) {
				failsOnWrite = true
			}
		}
		if failsOnWrite {
			run(tw, sc.ID+"/error", sc.Hist, "error", sc.Extra, sum)
			run(tw, sc.ID+"/conflict", sc.Hist, "conflict", sc.Extra, sum)
		} else {
			run(tw, sc.ID, sc.Hist, "error", sc.Extra, sum)
		}
		if sum.Hung >= 3 {
			break
		}
	}
	sum.Events = tw.Lines
	sum.Counts = tw.Counts
	_ = tw.Close()
	_ = scen.WriteJSON(*sumPath, sum)
}
