//go:build verifoverlay

package main

import (
	"context"

	"k8s.io/client-go/util/workqueue"
	"sigs.k8s.io/controller-runtime/pkg/client"
	"sigs.k8s.io/controller-runtime/pkg/event"
	"sigs.k8s.io/controller-runtime/pkg/handler"
	"sigs.k8s.io/controller-runtime/pkg/reconcile"

	"github.com/crossplane/crossplane-runtime/pkg/logging"

	pkgv1 "github.com/crossplane/crossplane/apis/pkg/v1"
	pkgv1beta1 "github.com/crossplane/crossplane/apis/pkg/v1beta1"
	"github.com/crossplane/crossplane/internal/controller/pkg/signature"
	"github.com/crossplane/crossplane/zzverif/simapi"
)

// The watch handler of the verification controllers (enqueuePackageRevisionsForImageConfig) is unexported.  This file is
// compiled only with `-tags verifoverlay -overlay <file>` where the overlay adds
// /verif/harness/overlay/signature/zz_verif_export.go.txt (a one-line exported wrapper) to the package at build time
// (checks/x09.py does that; nothing is written to /repo).
const enqueueAvailable = true

type enqueuer struct{ h handler.EventHandler }

func newEnqueuer(c *simapi.Client) enqueuer {
	return enqueuer{h: signature.VerifEnqueueForImageConfig(c, logging.NewNopLogger(), &pkgv1.ProviderRevisionList{})}
}

// recQueue records what the handler adds.
type recQueue struct {
	workqueue.TypedRateLimitingInterface[reconcile.Request]
	adds []reconcile.Request
}

func (q *recQueue) Add(r reconcile.Request) { q.adds = append(q.adds, r) }

// event hands one watch event to the real handler the way the controller's source does (update: old and new object).
func (e enqueuer) event(kind string, old, cur *pkgv1beta1.ImageConfig) ([]string, int, bool) {
	q := &recQueue{}
	ctx := context.Background()
	switch kind {
	case "create":
		e.h.Create(ctx, event.TypedCreateEvent[client.Object]{Object: cur}, q)
	case "update":
		e.h.Update(ctx, event.TypedUpdateEvent[client.Object]{ObjectOld: old, ObjectNew: cur}, q)
	case "delete":
		e.h.Delete(ctx, event.TypedDeleteEvent[client.Object]{Object: old}, q)
	}
	seen := map[string]bool{}
	var out []string
	for _, r := range q.adds {
		if !seen[r.Name] {
			seen[r.Name] = true
			out = append(out, r.Name)
		}
	}
	return out, len(q.adds), true
}
