------------------------------- MODULE MonXCRD -------------------------------
(***************************************************************************)
(* Trace monitor for C11.  Every trace line is one input vector (an        *)
(* abstract XRD `new`, and `old` for the update formulas; old = new in     *)
(* family "crd") together with what the REAL code answered                 *)
(* (harness/drivers/xcrd):                                                 *)
(*   output.xr     projection of xcrd.ForCompositeResource(new)            *)
(*   output.claim  projection of xcrd.ForCompositeResourceClaim(new)       *)
(*   output.upd    new.ValidateUpdate(old): "accept" | "reject" (+ fields) *)
(*   output.adm    the XRD admission handler: CREATE new, UPDATE old->new  *)
(*   output.mach   keys of the real machinery tables of schemas.go         *)
(* The formulas are the reference formulas of XCRD.tla applied to the      *)
(* recorded input / output.  A false formula prints a VIOL line; the       *)
(* monitor never stops early.  <k> is "xr" (composite CRD) or "claim".     *)
(*                                                                         *)
(* Property text -> formulas                                               *)
(*  "For every XRD, the composite and claim CRDs ..."  Rendered.<k>,       *)
(*                                                     Identity.<k>        *)
(*  "carry every version"                       Versions.Carried.<k>       *)
(*  "with the author's spec and status properties"  Author.Props.<k>       *)
(*  "required lists"                            Author.Required.<k>        *)
(*  "and validation rules"  (CEL rules, oneOf)  Author.Rules.<k>           *)
(*  (name length limits of the quantifier)      Author.NameLimit.<k>       *)
(*  "exactly one storage version"               Versions.OneStorage.<k>    *)
(*  "(the referenceable one)"            Versions.StorageIsReferenceable.<k> *)
(*  (mechanism: status subresource always on)   Versions.StatusSubresource.<k> *)
(*  "cluster scope for composites and namespace scope for claims"  Scope.<k> *)
(*  "and a controller reference to the XRD"     Owner.<k>                  *)
(*  "The Crossplane machinery fields ... are always present"               *)
(*                                              Machinery.Present.<k>      *)
(*  "with their standard schema and cannot be shadowed or altered by the   *)
(*   XRD's own schema"                          Machinery.Standard.<k>     *)
(*  (documented default injection)              Machinery.Default.<k>      *)
(*  "Claim names that collide with the composite's names are rejected"     *)
(*        Collide.NoCRD, Collide.Admission.Create, Collide.Admission.Update*)
(*  "group and kind/plural names cannot change once set"                   *)
(*        Immutable.{Group,Kind,Plural,ClaimKind,ClaimPlural}   (ValidateUpdate) *)
(*        Immutable.{...}.Admission                             (admission handler) *)
(***************************************************************************)
EXTENDS XCRD, TLC, Json, IOUtils

Trace == ndJsonDeserialize(IOEnv.VERIF_TRACE)
VARIABLE l

\* JSON arrays arrive as sequences: turn the set-valued fields back into sets
NPart(p) == [props |-> Range(p.props), req |-> Range(p.req), xval |-> Range(p.xval), oneOf |-> Range(p.oneOf), puf |-> p.puf]
NSchema(s) == [spec |-> NPart(s.spec), status |-> NPart(s.status), nameMax |-> s.nameMax]
NXrd(x) == [x EXCEPT !.versions = [i \in DOMAIN x.versions |-> [x.versions[i] EXCEPT !.schema = NSchema(@)]]]
NCrd(c) == [c EXCEPT !.versions = [i \in DOMAIN c.versions |->
                                     [c.versions[i] EXCEPT !.spec = NPart(@), !.status = NPart(@)]]]

Viol(name, i) == PrintT("VIOL|" \o name \o "|" \o ToString(i) \o "|" \o Trace[i].scenario)

CheckCRD(x, c, k, out, i) ==
  LET Core == CoreMach(k)
      \* machinery names of this CRD kind: the documented lists plus whatever the real tables hold now
      M == [spec |-> Core.spec \cup Range(IF k = "xr" THEN out.mach.xr ELSE out.mach.claim),
            status |-> Core.status \cup Range(out.mach.status)]
  IN
  /\ (Rendered(x, c, k) \/ Viol("Rendered." \o k, i))
  /\ (Identity(x, c, k) \/ Viol("Identity." \o k, i))
  /\ (VersionsCarried(x, c) \/ Viol("Versions.Carried." \o k, i))
  /\ (OneStorage(c) \/ Viol("Versions.OneStorage." \o k, i))
  /\ (StorageIsReferenceable(x, c) \/ Viol("Versions.StorageIsReferenceable." \o k, i))
  /\ (StatusSubresource(c) \/ Viol("Versions.StatusSubresource." \o k, i))
  /\ (Scope(c, k) \/ Viol("Scope." \o k, i))
  /\ (Owner(x, c) \/ Viol("Owner." \o k, i))
  /\ (AuthorProps(x, c, M) \/ Viol("Author.Props." \o k, i))
  /\ (AuthorRequired(x, c) \/ Viol("Author.Required." \o k, i))
  /\ (AuthorRules(x, c) \/ Viol("Author.Rules." \o k, i))
  /\ (NameLimit(x, c) \/ Viol("Author.NameLimit." \o k, i))
  /\ (MachineryPresent(c, Core) \/ Viol("Machinery.Present." \o k, i))
  /\ (MachineryStandard(x, c, M) \/ Viol("Machinery.Standard." \o k, i))
  /\ (MachineryDefault(x, c, k) \/ Viol("Machinery.Default." \o k, i))

CheckUpdate(o, n, out, i) ==
  LET rej == out.upd.direct # "accept"          \* a panic is not an acceptance
      den == out.adm.update # "allowed"
  IN
  /\ (Immutable(o, n, GroupChanged, rej) \/ Viol("Immutable.Group", i))
  /\ (Immutable(o, n, KindChanged, rej) \/ Viol("Immutable.Kind", i))
  /\ (Immutable(o, n, PluralChanged, rej) \/ Viol("Immutable.Plural", i))
  /\ (Immutable(o, n, ClaimKindChanged, rej) \/ Viol("Immutable.ClaimKind", i))
  /\ (Immutable(o, n, ClaimPluralChanged, rej) \/ Viol("Immutable.ClaimPlural", i))
  /\ (Immutable(o, n, GroupChanged, den) \/ Viol("Immutable.Group.Admission", i))
  /\ (Immutable(o, n, KindChanged, den) \/ Viol("Immutable.Kind.Admission", i))
  /\ (Immutable(o, n, PluralChanged, den) \/ Viol("Immutable.Plural.Admission", i))
  /\ (Immutable(o, n, ClaimKindChanged, den) \/ Viol("Immutable.ClaimKind.Admission", i))
  /\ (Immutable(o, n, ClaimPluralChanged, den) \/ Viol("Immutable.ClaimPlural.Admission", i))

\* Strict conformance (NOT a verdict): does the real output equal, field by field, what the design model of
\* XCRD.tla (ModelCRD / ModelUpdateRejects / ModelCreateDenied) predicts for this input?  A mismatch prints a
\* DRIFT line, which the check script counts (coverage.drift): the code no longer follows the model although
\* every formula may still hold; it is fixed by updating the model.
Core7(c) == [err |-> c.err, scope |-> c.scope, group |-> c.group, names |-> c.names, name |-> c.name,
             owner |-> c.owner, versions |-> [j \in DOMAIN c.versions |->
               LET v == c.versions[j] IN
               [name |-> v.name, served |-> v.served, storage |-> v.storage, statusSub |-> v.statusSub,
                nameMax |-> v.nameMax, nameType |-> v.nameType, spec |-> v.spec, status |-> v.status]]]
Conforms(o, n, xr, cl, out) ==
  /\ Core7(xr) = ModelCRD(n, "xr")
  /\ Core7(cl) = ModelCRD(n, "claim")
  /\ (out.upd.direct = "reject") = ModelUpdateRejects(o, n)
  /\ (out.adm.create = "denied") = ModelCreateDenied(n)
  /\ (out.adm.update = "denied") = (ModelUpdateRejects(o, n) \/ Collides(n))

Check(i) ==
  LET e == Trace[i]
      n == NXrd(e.input.new)
      o == NXrd(e.input.old)
      out == e.output
      xr == NCrd(out.xr)
      cl == NCrd(out.claim)
  IN
  /\ CheckCRD(n, xr, "xr", out, i)
  /\ CheckCRD(n, cl, "claim", out, i)
  /\ (CollideNoCRD(n, cl) \/ Viol("Collide.NoCRD", i))
  /\ ((Collides(n) => out.adm.create # "allowed") \/ Viol("Collide.Admission.Create", i))
  /\ ((Collides(n) => out.adm.update # "allowed") \/ Viol("Collide.Admission.Update", i))
  \* an XRD that is being deleted but still exists gets the same verdict for the same update
  /\ ((out.adm.updateTerminating = out.adm.update) \/ Viol("Admission.Terminating.Same", i))
  /\ CheckUpdate(o, n, out, i)
  /\ (Conforms(o, n, xr, cl, out) \/ PrintT("DRIFT|" \o ToString(i) \o "|" \o e.scenario))

Init == l = 0
Next == /\ l < Len(Trace) /\ l' = l + 1 /\ Check(l')
        /\ (l' < Len(Trace) \/ PrintT("DONE|" \o ToString(l')))
Spec == Init /\ [][Next]_l
=============================================================================
