---------------------------- MODULE MCEstablisher ----------------------------
EXTENDS Establisher, Json
OSeq2 == <<"a", "b">>
OSeq3 == <<"a", "b", "c">>
\* scenario emission: one line per transition that ends a reconcile
Emit == (pc # "idle" /\ pc' = "idle") => PrintT(<<"TRACE", ToJson(hist')>>)
=============================================================================
