SPECIFICATION Spec
CONSTANTS
  Mode = "Pipeline"
  Names = {"a", "b", "c"}
  MaxObjs = 5
  MaxRecs = 4
  MaxFaults = 2
  MaxEnv = 3
  ForeignAt = "none"
  RenderFails = FALSE
  CacheMisses = TRUE
  VerBumps = FALSE
  Forges = FALSE
  Legacies = FALSE
  FailKinds = {"fnerror1", "fnerror2", "fatal1", "fatal2", "reqloop1", "reqloop2", "reqlabel1", "reqlabel2"}
VIEW view
ACTION_CONSTRAINT Emit
CHECK_DEADLOCK FALSE
INVARIANTS NoLeak AtMostOne StepProps GcExact
PROPERTIES NameStable
