SPECIFICATION Spec
CONSTANTS
  Fams = {"publish", "propagate", "extract", "e2e", "e2ept", "e2eobs"}
  Keys = {"k1", "k2", "k3"}
  Vals = {"v1", "v2"}
  MaxCfgs = 2
  PathArgs = {"pstr", "pnum", "pobj", "pmissing", "pbad", "nil"}
  ExtAllData = FALSE
  E2EMaps = 4
ACTION_CONSTRAINT Emit
CHECK_DEADLOCK FALSE
INVARIANTS DesignFiltered DesignOnlyIfAsked DesignExactCopy DesignNoRewrite DesignForeign DesignExtract
