SPECIFICATION Spec
CONSTANTS
  RTypes = {"Provider"}
  Streams <- StreamsFault
  ConsIgn <- ConsPlain
  Verifs <- VerifOff
  Cache0 <- CacheAll
  MaxRecs = 3
  MaxFaults = 2
  MaxSig = 0
  MaxEnv = 1
  SrcFaults = TRUE
  StoreFaults <- AllStoreFaults
  DelFaults = TRUE
  ApiCrash = TRUE
  FixTee = TRUE
VIEW view
ACTION_CONSTRAINT Emit
CHECK_DEADLOCK FALSE
