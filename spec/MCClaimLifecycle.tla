---------------------------- MODULE MCClaimLifecycle ----------------------------
EXTENDS ClaimLifecycle, Json
\* scenario emission: one line per transition that ends a reconcile (shortest history reaching it)
Emit == (rc.pc # "idle" /\ rc'.pc = "idle") => PrintT(<<"TRACE", ToJson(hist')>>)

PresAll == {"fresh", "missing", "other", "unbound", "mine"}
PresFresh == {"fresh"}
PresMine == {"mine"}
PresBind == {"fresh", "missing", "other", "unbound"}
PresFM == {"fresh", "mine"}
PolNone == {"none"}
PolBg == {"Background"}
PolFg == {"Foreground"}
PolBoth == {"none", "Foreground"}
PolAll == {"none", "Background", "Foreground"}
Bools == {FALSE, TRUE}
OnlyFalse == {FALSE}
OnlyTrue == {TRUE}
RdyNone == {"none"}
RdyT == {"none", "T"}
RdyAll == {"none", "F", "T"}
EnvClaim == {"pause", "unpause", "edit", "delclaim"}
EnvXR == {"xrready", "xrunready", "xrcond", "xrunlist", "delxr", "xrfinalize", "rebind", "rotate"}
EnvAll == EnvClaim \cup EnvXR
EnvDelete == {"delclaim", "delxr", "xrfinalize", "xrready"}
EnvCond == {"xrready", "xrunready", "xrcond", "xrunlist", "rotate", "edit"}
EnvPause == {"pause", "unpause", "edit", "delclaim", "xrready"}
EnvBind == {"rebind", "delxr", "delclaim", "xrready", "xrfinalize"}
NoEnv == {}
FaultsAll == {"error", "conflict", "miss", "crashBefore", "crashAfter"}
FaultsNoMiss == {"error", "conflict", "crashBefore", "crashAfter"}
FaultsMiss == {"miss"}
NoFaults == {}
FaultsVal == {"error"}
=============================================================================
