// Package replay aligns a behaviour emitted by TLC (a sequence of environment
// steps and expected controller calls) with the calls the real code makes, so
// that faults and mid-reconcile environment steps are injected at the point the
// model chose. The scenario only steers the environment: when the real code
// makes calls the model did not predict (or omits predicted ones) the replay
// continues and the divergence is counted as drift; the verdict always comes
// from the recorded real trace.
package replay

import (
	"encoding/json"

	"github.com/crossplane/crossplane/zzverif/simapi"
)

// Entry is one step of a TLC history.
type Entry struct {
	T   string         `json:"t"`
	K   string         `json:"k"`
	O   string         `json:"o"`
	F   string         `json:"f"`
	Raw map[string]any `json:"-"`
}

// Abs is the abstract call key of a call entry.
func (e Entry) Abs() string { return e.K + ":" + e.O }

// Parse decodes a TLC history (a JSON array of records).
func Parse(raw json.RawMessage) ([]Entry, error) {
	var ms []map[string]any
	if err := json.Unmarshal(raw, &ms); err != nil {
		return nil, err
	}
	out := make([]Entry, len(ms))
	for i, m := range ms {
		s := func(k string) string { v, _ := m[k].(string); return v }
		out[i] = Entry{T: s("t"), K: s("k"), O: s("o"), F: s("f"), Raw: m}
	}
	return out, nil
}

// Block is one reconcile of an actor: the environment steps that precede it
// and the (call | env) entries that make it up.
type Block struct {
	Pre   []Entry
	Steps []Entry
}

// Split cuts the entries after the init entry into reconcile blocks. A block
// starts at a call entry for which isStart holds and extends to the last call
// entry before the next start; env entries after that belong to the next block's Pre.
func Split(hist []Entry, isStart func(Entry) bool) (blocks []Block, trailing []Entry) {
	var cur *Block
	var pend []Entry
	flush := func() {
		if cur != nil {
			blocks = append(blocks, *cur)
			cur = nil
		}
	}
	for _, e := range hist {
		switch {
		case e.T == "call" && isStart(e):
			flush()
			cur = &Block{Pre: pend}
			pend = nil
			cur.Steps = append(cur.Steps, e)
		case e.T == "call":
			if cur == nil {
				cur = &Block{Pre: pend}
				pend = nil
			}
			cur.Steps = append(cur.Steps, pend...)
			pend = nil
			cur.Steps = append(cur.Steps, e)
		case e.T == "env":
			pend = append(pend, e)
		}
	}
	flush()
	return blocks, pend
}

// Aligner walks a block while the real code runs.
type Aligner struct {
	Steps   []Entry
	Variant simapi.Decision // how a "fail" entry is realised: FailError, FailConflict or CrashBefore
	Env     func(Entry)     // executes an environment entry
	i       int

	Drift    int    // real calls the model did not predict + predicted calls never made
	Injected string // the fault injected in this reconcile, if any
	EnvSteps int    // environment steps executed in the middle of this reconcile
	DriftAbs []string // the abstract keys that did not match ("+key" extra real call, "-key" predicted call never made)
}

func (a *Aligner) runEnv() {
	for a.i < len(a.Steps) && a.Steps[a.i].T == "env" {
		if a.Env != nil {
			a.Env(a.Steps[a.i])
		}
		a.EnvSteps++
		a.i++
	}
}

// OnCall is given the abstract key of a real call and says what to do with it.
func (a *Aligner) OnCall(abs string, write bool) simapi.Decision {
	save := a.i
	a.runEnvPeek(abs)
	if a.i < len(a.Steps) && a.Steps[a.i].T == "call" && a.Steps[a.i].Abs() == abs {
		f := a.Steps[a.i].F
		a.i++
		switch f {
		case "fail":
			d := a.Variant
			if d == simapi.FailConflict && !write {
				d = simapi.FailError
			}
			a.Injected = d.String()
			return d
		case "crashAfter":
			a.Injected = simapi.CrashAfter.String()
			return simapi.CrashAfter
		}
		return simapi.Proceed
	}
	_ = save
	a.Drift++
	a.DriftAbs = append(a.DriftAbs, "+"+abs)
	return simapi.Proceed
}

// runEnvPeek executes pending env entries only if the call after them is the
// one being made now (otherwise the real call is an extra one and the
// environment step has to wait for its place).
func (a *Aligner) runEnvPeek(abs string) {
	j := a.i
	for j < len(a.Steps) && a.Steps[j].T == "env" {
		j++
	}
	if j < len(a.Steps) && a.Steps[j].Abs() == abs {
		a.runEnv()
	}
}

// Finish executes what is left of the block after the real reconcile returned.
func (a *Aligner) Finish() {
	for a.i < len(a.Steps) {
		if a.Steps[a.i].T == "env" {
			if a.Env != nil {
				a.Env(a.Steps[a.i])
			}
			a.EnvSteps++
		} else {
			a.Drift++
			a.DriftAbs = append(a.DriftAbs, "-"+a.Steps[a.i].Abs())
		}
		a.i++
	}
}
