SPECIFICATION Spec
CONSTANTS
  Fns <- FaOnly
  Callers <- C2
  MaxCalls = 1
  MaxGC = 0
  MaxEnv = 0
  MaxConn = 3
  MaxFaults = 0
  EnvOps <- EnvNone
  EnvEps <- Eps12
  InitEps <- InitE1
  Orders <- Asc
  Codes <- OkOnly
  FaultKinds <- NoFaults
  Recheck = FALSE
  VerifyTarget = TRUE
  CloseStale = TRUE
  FixPkg = FALSE
VIEW view

CHECK_DEADLOCK FALSE
INVARIANTS NoLeak
