------------------------------ MODULE Pipeline ------------------------------
(***************************************************************************)
(* C04 - every pipeline step sees exactly the state the function contract  *)
(* promises.                                                               *)
(*                                                                         *)
(* A reference interpreter of the Composition Function pipeline            *)
(* (composite.FunctionComposer.Compose: the pipeline loop,                 *)
(* composite.FetchingFunctionRunner.RunFunction: the requirements loop,    *)
(* composite.ExistingExtraResourcesFetcher.Fetch: selector matching) and   *)
(* of the connection table of xfn.PackagedFunctionRunner.                  *)
(*                                                                         *)
(* Functions are deterministic PROGRAMS (functions of their request) from  *)
(* a finite family, parametrised by                                        *)
(*   des   how desired is rewritten: keep / add dn / drop dn / dropall /   *)
(*         rename dn->c / reorder / mutate (every value and the desired    *)
(*         composite := own marker)                                        *)
(*   ctx   how the context is rewritten: keep / set k / own (k-<marker>) / *)
(*         del k / drop (no context at all)                                *)
(*   req   requirements as a function of what the program was given:       *)
(*         none / name (e1) / labels (grp=g) / absent (zz) /               *)
(*         chase (asks e1; once it is GIVEN e1 also asks e2) /             *)
(*         grow (asks by label; then additionally by name for every object *)
(*         it was given) / relabel (one requirement whose match labels     *)
(*         change once it was supplied) / count n (a counter kept in the context: changes *)
(*         its requirement n times, then repeats it; n = 9 never does) /   *)
(*         flip (alternates between two requirements for ever)             *)
(*   res   results: none / normal / warning / fatal / warnfatal, target rt *)
(*   cond  conditions: none / own type / shared type, status cs, target ct *)
(*   creds whether the step declares a credential secret                   *)
(*                                                                         *)
(* A RUN is a record                                                       *)
(*   in      the input: steps (programs), extras (Extra objects in the     *)
(*           cluster), existing (composed resources the XR already has),   *)
(*           transport                                                     *)
(*   calls   the sequence of request summaries the functions received      *)
(*   err, applied, refs, xrm, events, conds, xrEvents, claimEvents,        *)
(*   errToks, xrConds, claimTypes   the outcome                            *)
(* Interp(in) is the run the contract promises.  The property formulas are *)
(* predicates on ANY run; MCPipeline checks that Interp(in) satisfies them *)
(* (design level), MonPipeline evaluates them on the runs recorded from    *)
(* the real code.  They are relational: the response a call produced is    *)
(* recomputed from the request that was actually received (Rsp), so each   *)
(* formula talks about one hop of the data flow.                           *)
(*                                                                         *)
(* Interpretations (written down per HOWTO):                               *)
(*  * desired state is a map in the protocol: "reorder" is the identity.   *)
(*  * between two rounds of one step the context is the one returned by    *)
(*    the previous round, the desired state stays the previous step's.     *)
(*  * only the response of a step's last round counts (results of earlier  *)
(*    rounds are preliminary); "none is dropped" is asserted for runs that *)
(*    end ok or with a fatal result, in which results are placed before    *)
(*    the fatal one.  When a step fails with an error (requirements never  *)
(*    stabilise) Compose returns no events at all - not asserted.          *)
(*  * "requirements stop changing" = equal to the previous round's; no     *)
(*    requirements at all = stable at once.  (A non-nil empty Requirements *)
(*    message is outside the family.)                                      *)
(***************************************************************************)
EXTENDS Integers, Sequences, FiniteSets, TLC

MaxIter == 5       \* composite.MaxRequirementsIterations

Range(s) == {s[i] : i \in DOMAIN s}
MaxOf(S) == CHOOSE m \in S : \A x \in S : x <= m
MinOf(S) == CHOOSE m \in S : \A x \in S : m <= x
Marker(i) == "s" \o ToString(i)                \* step name = input marker of step i
FlattenSeq(ss) == LET RECURSIVE G(_)
                      G(i) == IF i > Len(ss) THEN <<>> ELSE ss[i] \o G(i + 1)
                  IN G(1)

-----------------------------------------------------------------------------
(* the program family *)
P(name, des, dn, ctx, req, n, res, rt, cond, cs, ct, creds) ==
  [name |-> name, des |-> des, dn |-> dn, ctx |-> ctx, req |-> req, n |-> n, res |-> res, rt |-> rt,
   cond |-> cond, cs |-> cs, ct |-> ct, creds |-> creds]

ProgPass   == P("pass",   "keep",    "-", "keep", "none",   0, "none",      "xr",    "none",   "True",    "xr",    FALSE)
ProgAddA   == P("addA",   "add",     "a", "set",  "none",   0, "normal",    "xr",    "own",    "True",    "xr",    TRUE)
ProgAddB   == P("addB",   "add",     "b", "own",  "name",   0, "none",      "xr",    "shared", "True",    "claim", FALSE)
ProgDropA  == P("dropA",  "drop",    "a", "del",  "none",   0, "warning",   "claim", "shared", "False",   "xr",    TRUE)
ProgRenAC  == P("renAC",  "rename",  "a", "keep", "labels", 0, "none",      "xr",    "none",   "True",    "xr",    FALSE)
ProgMutate == P("mutate", "mutate",  "-", "keep", "absent", 0, "normal",    "claim", "none",   "True",    "xr",    TRUE)
ProgClear  == P("clear",  "dropall", "-", "drop", "none",   0, "none",      "xr",    "none",   "True",    "xr",    FALSE)
ProgChase  == P("chase",  "add",     "c", "keep", "chase",  0, "none",      "xr",    "none",   "True",    "xr",    FALSE)
ProgGrow   == P("grow",   "reorder", "-", "set",  "grow",   0, "warning",   "xr",    "own",    "Unknown", "claim", FALSE)
ProgCount2 == P("count2", "add",     "a", "keep", "count",  2, "warning",   "xr",    "none",   "True",    "xr",    TRUE)
ProgCount4 == P("count4", "keep",    "-", "keep", "count",  4, "none",      "xr",    "none",   "True",    "xr",    FALSE)
ProgNever  == P("never",  "add",     "b", "keep", "count",  9, "normal",    "xr",    "own",    "True",    "xr",    FALSE)
ProgRelabel == P("relabel", "add",    "b", "keep", "relabel", 0, "none",     "xr",    "none",   "True",    "xr",    FALSE)
\* widen: the requirement first selects with two labels (grp=g, sub=1), and with the first of them only once something was
\* supplied - the new selector's labels are a strict SUBSET of the previous one's, and it matches more
\* (added after the seeded change C04-m8 - "nothing new in the selector, so nothing changed" - was missed)
ProgWiden  == P("widen",   "add",    "b", "keep", "widen",   0, "none",     "xr",    "none",   "True",    "xr",    FALSE)
\* flip: the requirement alternates between two values for ever (x1, x0, x1, ...): every value was seen before, but never in
\* the round before, so the step never stabilises (added after the seeded change C03-m11 - "equal to ANY earlier round's
\* requirements" - was missed by the two programs that never repeat a value)
ProgFlip   == P("flip",    "add",    "b", "keep", "flip",    9, "none",     "xr",    "none",   "True",    "xr",    FALSE)
ProgFatal  == P("fatal",  "add",     "b", "set",  "name",   0, "warnfatal", "claim", "own",    "False",   "xr",    FALSE)

AllProgs == {ProgPass, ProgAddA, ProgAddB, ProgDropA, ProgRenAC, ProgMutate, ProgClear, ProgChase, ProgGrow,
             ProgCount2, ProgCount4, ProgNever, ProgFatal, ProgRelabel, ProgWiden, ProgFlip}

\* the program a call ran: looked up by the name the function found in its input
ProgFor(in, name) ==
  IF \E i \in DOMAIN in.steps : in.steps[i].name = name
  THEN in.steps[CHOOSE i \in DOMAIN in.steps : in.steps[i].name = name]
  ELSE ProgPass        \* a function that finds no program in its input passes everything through

-----------------------------------------------------------------------------
(* cluster contents *)
\* Extra objects e1, e2 (label grp=g) exist if listed in in.extras; e9 (label grp=h) always exists
\* (and so does an object e1 of another kind with label grp=g, which no selector may ever match).
Objs(in) == Range(in.extras) \cup {"e9"}
LabelOf(o) == IF o \in {"e1", "e2"} THEN "g" ELSE "h"
SubOf(o) == IF o = "e1" THEN "1" ELSE "2"        \* a second label, sub: e1 has sub=1, every other object sub=2
\* a label selector value "g" stands for {grp: g}, "g+1" for {grp: g, sub: 1}
Match(sel, objs) == IF sel.t = "name" THEN {o \in objs : o = sel.v}
                    ELSE IF sel.v = "g+1" THEN {o \in objs : LabelOf(o) = "g" /\ SubOf(o) = "1"}
                    ELSE {o \in objs : LabelOf(o) = sel.v}
\* what ExistingExtraResourcesFetcher must supply for a set of requirements
Fetch(reqs, objs) == {[k |-> r.k, names |-> Match(r, objs)] : r \in reqs}

\* composed resources the XR already has: name -> value "old"; "a" has a connection secret
ExistingDes(in) == {[n |-> x, v |-> "old"] : x \in Range(in.existing)}
ExpObs(in) ==
  [xr |-> "xr1", xrconn |-> {[k |-> "xk", v |-> "xv"]},
   res |-> {[n |-> x, conn |-> IF x = "a" THEN {[k |-> "ak", v |-> "av"]} ELSE {}] : x \in Range(in.existing)}]
ExpServer(in, i) == IF in.transport = "grpc" THEN "S" \o ToString(i) ELSE "inproc"

-----------------------------------------------------------------------------
(* program semantics: the response to a request rq = [des, dxr, ctx, extra, ...] *)
CtxGet(c, k, d) == IF \E x \in c : x.k = k THEN (CHOOSE x \in c : x.k = k).v ELSE d
CtxSet(c, k, v) == {x \in c : x.k # k} \cup {[k |-> k, v |-> v]}
DesSet(d, n, v) == {x \in d : x.n # n} \cup {[n |-> n, v |-> v]}
NumOf(s) == IF \E i \in 0..40 : ToString(i) = s THEN CHOOSE i \in 0..40 : ToString(i) = s ELSE 0
NamesGiven(extra, k) == UNION {x.names : x \in {y \in extra : y.k = k}}
Sel(k, t, v) == [k |-> k, t |-> t, v |-> v]

DesOp(p, m, d) ==
  CASE p.des = "add"     -> DesSet(d, p.dn, m)
    [] p.des = "drop"    -> {x \in d : x.n # p.dn}
    [] p.des = "dropall" -> {}
    [] p.des = "rename"  -> (IF \E x \in d : x.n = p.dn
                             THEN DesSet({x \in d : x.n # p.dn}, "c", (CHOOSE x \in d : x.n = p.dn).v)
                             ELSE d)
    [] p.des = "mutate"  -> {[n |-> x.n, v |-> m] : x \in d}
    [] OTHER             -> d            \* keep, reorder
DxrOp(p, m, x) == CASE p.des = "mutate" -> m [] p.des = "dropall" -> "none" [] OTHER -> x

Count(rq) == NumOf(CtxGet(rq.ctx, "n", "0"))
CtxOp(p, m, rq) ==
  LET c == rq.ctx
      base == CASE p.ctx = "set"  -> CtxSet(c, "k", m)
                [] p.ctx = "own"  -> CtxSet(c, "k-" \o m, m)
                [] p.ctx = "del"  -> {x \in c : x.k # "k"}
                [] p.ctx = "drop" -> {}
                [] OTHER          -> c
  IN IF p.req \in {"count", "flip"} /\ Count(rq) < p.n THEN CtxSet(base, "n", ToString(Count(rq) + 1)) ELSE base

ReqOp(p, rq) ==
  CASE p.req = "name"   -> {Sel("k1", "name", "e1")}
    [] p.req = "labels" -> {Sel("k1", "labels", "g")}
    [] p.req = "absent" -> {Sel("k1", "name", "zz")}
    [] p.req = "chase"  -> {Sel("k1", "name", "e1")} \cup
                           (IF "e1" \in NamesGiven(rq.extra, "k1") THEN {Sel("k2", "name", "e2")} ELSE {})
    [] p.req = "grow"   -> {Sel("k1", "labels", "g")} \cup {Sel("n-" \o o, "name", o) : o \in NamesGiven(rq.extra, "k1")}
    \* relabel: the same requirement name, kind and apiVersion, but other match labels once something was supplied for it
    [] p.req = "relabel" -> {Sel("k1", "labels", IF \E x \in rq.extra : x.k = "k1" THEN "g" ELSE "h")}
    [] p.req = "widen"  -> {Sel("k1", "labels", IF \E x \in rq.extra : x.k = "k1" THEN "g" ELSE "g+1")}
    [] p.req = "count"  -> {Sel("k1", "name", "x" \o ToString(IF Count(rq) < p.n THEN Count(rq) ELSE p.n))}
    [] p.req = "flip"   -> {Sel("k1", "name", "x" \o ToString((Count(rq) + 1) % 2))}
    [] OTHER            -> {}            \* none: no requirements at all

Tok(m, sev) == "fnres:" \o m \o ":" \o sev
Res(m, sev, t) == [sev |-> sev, tok |-> Tok(m, sev), target |-> t]
ResOp(p, m) ==
  CASE p.res = "normal"    -> <<Res(m, "normal", p.rt)>>
    [] p.res = "warning"   -> <<Res(m, "warning", p.rt)>>
    [] p.res = "fatal"     -> <<Res(m, "fatal", p.rt)>>
    [] p.res = "warnfatal" -> <<Res(m, "warning", p.rt), Res(m, "fatal", p.rt)>>
    [] OTHER               -> <<>>
CondOp(p, m) ==
  CASE p.cond = "own"    -> <<[type |-> "Own-" \o m, status |-> p.cs, reason |-> "R-" \o m, target |-> p.ct]>>
    [] p.cond = "shared" -> <<[type |-> "Shared", status |-> p.cs, reason |-> "R-" \o m, target |-> p.ct]>>
    [] OTHER             -> <<>>

Run(p, m, rq) ==
  [des |-> DesOp(p, m, rq.des), dxr |-> DxrOp(p, m, rq.dxr), ctx |-> CtxOp(p, m, rq), reqs |-> ReqOp(p, rq),
   results |-> ResOp(p, m), conds |-> CondOp(p, m)]

IsFatal(rsp) == \E i \in DOMAIN rsp.results : rsp.results[i].sev = "fatal"
Creds(p, m) == IF p.creds THEN {[n |-> "c", k |-> "key", v |-> "val-" \o m]} ELSE {}

\* results of a response that are surfaced as events: those before the first fatal one
Surfaced(rs) ==
  LET F == {i \in DOMAIN rs : rs[i].sev = "fatal"}
  IN IF F = {} THEN rs ELSE SubSeq(rs, 1, MinOf(F) - 1)
TargetName(t) == IF t = "claim" THEN "CompositeAndClaim" ELSE "Composite"
EventsOf(rsp, step) ==
  LET rs == Surfaced(rsp.results)
  IN [i \in DOMAIN rs |-> [type |-> IF rs[i].sev = "normal" THEN "Normal" ELSE "Warning", tok |-> rs[i].tok,
                           target |-> TargetName(rs[i].target), step |-> step]]
CondsOf(rsp) ==
  [i \in DOMAIN rsp.conds |-> [type |-> rsp.conds[i].type, status |-> rsp.conds[i].status,
                               reason |-> rsp.conds[i].reason, target |-> TargetName(rsp.conds[i].target)]]
FatalTok(rsp) == LET rs == rsp.results IN rs[MinOf({i \in DOMAIN rs : rs[i].sev = "fatal"})].tok
\* custom conditions left on the XR: the last one of every type wins
LastWins(cs) ==
  {[type |-> cs[i].type, status |-> cs[i].status, reason |-> cs[i].reason] :
     i \in {j \in DOMAIN cs : \A k \in DOMAIN cs : k > j => cs[k].type # cs[j].type}}
ClaimTypes(cs) == {cs[i].type : i \in {j \in DOMAIN cs : cs[j].target = "CompositeAndClaim"}}

-----------------------------------------------------------------------------
(* the reference interpreter *)
Call(in, i, r, d, x, c, e) ==
  [step |-> i, round |-> r, prog |-> in.steps[i].name, input |-> Marker(i), des |-> d, dxr |-> x, ctx |-> c,
   extra |-> e, creds |-> Creds(in.steps[i], Marker(i)), obs |-> ExpObs(in), digest |-> "ref",
   server |-> ExpServer(in, i), sent |-> "ref", got |-> "ref"]

\* the requirements loop of one step (FetchingFunctionRunner.RunFunction)
RECURSIVE RoundsFrom(_, _, _, _, _, _, _, _)
RoundsFrom(in, i, r, d, x, c, e, prev) ==
  LET cl  == Call(in, i, r, d, x, c, e)
      rsp == Run(in.steps[i], Marker(i), cl)
  IN IF IsFatal(rsp) THEN [calls |-> <<cl>>, rsp |-> rsp, st |-> "fatal"]           \* a fatal result is never iterated on
     ELSE IF rsp.reqs = prev THEN [calls |-> <<cl>>, rsp |-> rsp, st |-> "ok"]      \* stable
     ELSE IF r = MaxIter THEN [calls |-> <<cl>>, rsp |-> rsp, st |-> "unstable"]    \* MaxIter + 1 calls made
     ELSE LET rest == RoundsFrom(in, i, r + 1, d, x, rsp.ctx, Fetch(rsp.reqs, Objs(in)), rsp.reqs)
          IN [rest EXCEPT !.calls = <<cl>> \o @]

\* the pipeline loop (FunctionComposer.Compose)
RECURSIVE StepsFrom(_, _, _, _, _)
StepsFrom(in, i, d, x, c) ==
  IF i > Len(in.steps) THEN [calls |-> <<>>, st |-> "ok", rsps |-> <<>>]
  ELSE LET s == RoundsFrom(in, i, 0, d, x, c, {}, {})
       IN IF s.st # "ok" THEN [calls |-> s.calls, st |-> s.st, rsps |-> <<s.rsp>>]
          ELSE LET rest == StepsFrom(in, i + 1, s.rsp.des, s.rsp.dxr, s.rsp.ctx)
               IN [calls |-> s.calls \o rest.calls, st |-> rest.st, rsps |-> <<s.rsp>> \o rest.rsps]

Interp(in) ==
  LET t    == StepsFrom(in, 1, {}, "none", {})
      k    == Len(t.rsps)
      last == t.rsps[k]
      ok   == t.st = "ok"
      evs  == IF t.st = "unstable" THEN <<>> ELSE FlattenSeq([i \in 1..k |-> EventsOf(t.rsps[i], Marker(i))])
      cds  == IF t.st = "unstable" THEN <<>> ELSE FlattenSeq([i \in 1..k |-> CondsOf(t.rsps[i])])
      app  == IF ok THEN last.des ELSE ExistingDes(in)
  IN [in |-> in, calls |-> t.calls, st |-> t.st, err |-> ~ok,
      applied |-> app,
      refs |-> IF ok THEN {a.n : a \in app} ELSE {a.n : a \in app} \cup {"f"},
      xrm |-> IF ok THEN last.dxr ELSE "none",
      events |-> evs, conds |-> cds,
      xrEvents |-> [i \in DOMAIN evs |-> [type |-> evs[i].type, tok |-> evs[i].tok]],
      claimEvents |-> LET ce == SelectSeq(evs, LAMBDA e : e.target = "CompositeAndClaim")
                      IN [i \in DOMAIN ce |-> [type |-> ce[i].type, tok |-> ce[i].tok]],
      errToks |-> IF t.st = "fatal" THEN {FatalTok(last)} ELSE {},
      xrConds |-> LastWins(cds), claimTypes |-> ClaimTypes(cds)]

-----------------------------------------------------------------------------
(* the property formulas, on any run r *)
N(r) == Len(r.calls)
NSteps(r) == Len(r.in.steps)
\* the response call j produced, recomputed from the request it actually received
Rsp(r, j) == LET c == r.calls[j] IN Run(ProgFor(r.in, c.prog), c.input, c)
SameStep(r, i, j) == i \in DOMAIN r.calls /\ j \in DOMAIN r.calls /\ r.calls[i].step = r.calls[j].step
PrevReqs(r, j) == IF r.calls[j].round > 0 /\ SameStep(r, j - 1, j) THEN Rsp(r, j - 1).reqs ELSE {}
Stable(r, j) == Rsp(r, j).reqs = PrevReqs(r, j)
Done(r, j) == IsFatal(Rsp(r, j)) \/ Stable(r, j)
IsLastOfStep(r, j) == j = N(r) \/ r.calls[j + 1].step # r.calls[j].step
StepCalls(r, i) == {j \in DOMAIN r.calls : r.calls[j].step = i}
\* the response of step i (of its last round); only used when the step was called
StepRsp(r, i) == Rsp(r, MaxOf(StepCalls(r, i)))
EndsFatal(r) == N(r) >= 1 /\ IsFatal(Rsp(r, N(r)))
EndsUnstable(r) == N(r) >= 1 /\ ~Done(r, N(r)) /\ r.calls[N(r)].round >= MaxIter
EndsOk(r) == N(r) >= 1 /\ Done(r, N(r)) /\ ~IsFatal(Rsp(r, N(r)))
NoWrites(r) == r.applied = ExistingDes(r.in) /\ r.refs = Range(r.in.existing) \cup {"f"} /\ r.xrm = "none"

\* -- Order: steps are run in pipeline order, every step of the pipeline is run unless the run stops
OrderFirst(r) == NSteps(r) >= 1 => (N(r) >= 1 /\ r.calls[1].step = 1 /\ r.calls[1].round = 0)
OrderNext(r) ==
  \A j \in 1..(N(r) - 1) :
    LET a == r.calls[j]
        b == r.calls[j + 1] IN
    \/ b.step = a.step /\ b.round = a.round + 1
    \/ b.step = a.step + 1 /\ b.round = 0 /\ b.step <= NSteps(r)
OrderAll(r) == EndsOk(r) => r.calls[N(r)].step = NSteps(r)

\* -- Threading: the request of step i carries the desired state (every round) and the context (round 0)
\*    returned by step i-1; empty for the first step
ThreadingDesired(r) ==
  \A j \in DOMAIN r.calls :
    LET c == r.calls[j] IN
    IF c.step = 1 THEN c.des = {} /\ c.dxr = "none"
    ELSE /\ StepCalls(r, c.step - 1) # {}
         /\ c.des = StepRsp(r, c.step - 1).des
         /\ c.dxr = StepRsp(r, c.step - 1).dxr
ThreadingContext(r) ==
  \A j \in DOMAIN r.calls :
    LET c == r.calls[j] IN
    c.round = 0 =>
      (IF c.step = 1 THEN c.ctx = {}
       ELSE StepCalls(r, c.step - 1) # {} /\ c.ctx = StepRsp(r, c.step - 1).ctx)

\* -- SameObserved: every request of one Compose carries the same observed state, built once:
\*    the XR + its connection details, every existing composed resource of this XR + its connection details
ObservedOnce(r) == \A i, j \in DOMAIN r.calls : r.calls[i].digest = r.calls[j].digest
ObservedContent(r) == \A j \in DOMAIN r.calls : r.calls[j].obs = ExpObs(r.in)

\* -- Rounds
RoundsExtra(r) ==       \* round r+1 is supplied exactly the objects matching the requirements returned in round r
  \A j \in DOMAIN r.calls :
    LET c == r.calls[j] IN
    IF c.round = 0 THEN c.extra = {}
    ELSE SameStep(r, j - 1, j) /\ c.extra = Fetch(Rsp(r, j - 1).reqs, Objs(r.in))
RoundsContext(r) ==     \* ... and the context returned in round r
  \A j \in DOMAIN r.calls :
    r.calls[j].round > 0 => (SameStep(r, j - 1, j) /\ r.calls[j].ctx = Rsp(r, j - 1).ctx)
RoundsRerun(r) ==       \* the step is run again while its requirements keep changing (up to the bound)
  \A j \in DOMAIN r.calls :
    (~Done(r, j) /\ r.calls[j].round < MaxIter) => (~IsLastOfStep(r, j) /\ r.calls[j + 1].round = r.calls[j].round + 1)
RoundsStop(r) ==        \* ... and no longer
  \A j \in DOMAIN r.calls : Done(r, j) => IsLastOfStep(r, j)
RoundsBound(r) ==       \* at most MaxIter + 1 calls of one step
  \A j \in DOMAIN r.calls : r.calls[j].round <= MaxIter
RoundsUnstable(r) ==    \* never stable: an error, nothing written
  EndsUnstable(r) => (r.err /\ NoWrites(r))

\* -- OwnInput: each step gets its own input and the credentials of its own secrets
OwnInput(r) ==
  \A j \in DOMAIN r.calls :
    LET c == r.calls[j] IN
    c.step \in DOMAIN r.in.steps /\ c.input = Marker(c.step) /\ c.prog = r.in.steps[c.step].name
OwnCreds(r) ==
  \A j \in DOMAIN r.calls :
    LET c == r.calls[j] IN
    c.step \in DOMAIN r.in.steps => c.creds = Creds(r.in.steps[c.step], Marker(c.step))

\* -- Final: the composed resources applied are the last step's desired state
FinalOutcome(r) == r.err <=> (N(r) = 0 \/ EndsFatal(r) \/ EndsUnstable(r))
FinalApplied(r) == EndsOk(r) => r.applied = Rsp(r, N(r)).des
FinalRefs(r) == EndsOk(r) => r.refs = {a.n : a \in Rsp(r, N(r)).des}
FinalXR(r) == EndsOk(r) => r.xrm = Rsp(r, N(r)).dxr

\* -- Results: surfaced in pipeline order, none dropped; a fatal result stops the pipeline
CalledSteps(r) == {r.calls[j].step : j \in DOMAIN r.calls}
StepSeq(r) == LET k == IF CalledSteps(r) = {} THEN 0 ELSE MaxOf(CalledSteps(r)) IN
              [i \in 1..k |-> i]
ExpEvents(r) == FlattenSeq([i \in DOMAIN StepSeq(r) |->
                              IF StepCalls(r, i) = {} THEN <<>> ELSE EventsOf(StepRsp(r, i), Marker(i))])
ExpConds(r) == FlattenSeq([i \in DOMAIN StepSeq(r) |-> IF StepCalls(r, i) = {} THEN <<>> ELSE CondsOf(StepRsp(r, i))])
Judged(r) == EndsOk(r) \/ EndsFatal(r)       \* see the interpretation in the header
ResultsOrder(r) == Judged(r) => r.events = ExpEvents(r)
ResultsConditions(r) == Judged(r) => r.conds = ExpConds(r)
ResultsSurfaced(r) ==
  Judged(r) =>
    LET ev == ExpEvents(r)
        ce == SelectSeq(ev, LAMBDA e : e.target = "CompositeAndClaim") IN
    /\ r.xrEvents = [i \in DOMAIN ev |-> [type |-> ev[i].type, tok |-> ev[i].tok]]
    /\ r.claimEvents = [i \in DOMAIN ce |-> [type |-> ce[i].type, tok |-> ce[i].tok]]
ResultsXRConditions(r) ==
  Judged(r) => (r.xrConds = LastWins(ExpConds(r)) /\ r.claimTypes = ClaimTypes(ExpConds(r)))
FatalStops(r) ==
  /\ \A j \in 1..(N(r) - 1) : ~IsFatal(Rsp(r, j))
  /\ EndsFatal(r) => (r.err /\ NoWrites(r) /\ FatalTok(Rsp(r, N(r))) \in r.errToks)

\* -- Routing (pipeline part): each call is received by the endpoint of the function the step names,
\*    with the content that was sent (v1beta1 fallback included)
RoutingStep(r) == \A j \in DOMAIN r.calls : r.calls[j].server = ExpServer(r.in, r.calls[j].step)
RoutingContent(r) == \A j \in DOMAIN r.calls : r.calls[j].got = r.calls[j].sent

\* -- the whole run against the reference
Core(c) == [step |-> c.step, round |-> c.round, prog |-> c.prog, input |-> c.input, des |-> c.des, dxr |-> c.dxr,
            ctx |-> c.ctx, extra |-> c.extra, creds |-> c.creds]
RefCalls(r) == LET e == Interp(r.in) IN
               /\ N(r) = Len(e.calls)
               /\ \A j \in DOMAIN r.calls : Core(r.calls[j]) = Core(e.calls[j])
RefOutcome(r) == LET e == Interp(r.in) IN
                 /\ r.err = e.err /\ r.applied = e.applied /\ r.refs = e.refs /\ r.xrm = e.xrm
                 /\ (e.st # "unstable" =>
                       /\ r.events = e.events /\ r.conds = e.conds /\ r.xrEvents = e.xrEvents
                       /\ r.claimEvents = e.claimEvents /\ r.xrConds = e.xrConds /\ r.claimTypes = e.claimTypes
                       /\ e.errToks \subseteq r.errToks)

PipelineFormulas(r) ==
  /\ OrderFirst(r) /\ OrderNext(r) /\ OrderAll(r)
  /\ ThreadingDesired(r) /\ ThreadingContext(r)
  /\ ObservedOnce(r) /\ ObservedContent(r)
  /\ RoundsExtra(r) /\ RoundsContext(r) /\ RoundsRerun(r) /\ RoundsStop(r) /\ RoundsBound(r) /\ RoundsUnstable(r)
  /\ OwnInput(r) /\ OwnCreds(r)
  /\ FinalOutcome(r) /\ FinalApplied(r) /\ FinalRefs(r) /\ FinalXR(r)
  /\ ResultsOrder(r) /\ ResultsConditions(r) /\ ResultsSurfaced(r) /\ ResultsXRConditions(r) /\ FatalStops(r)
  /\ RoutingStep(r) /\ RoutingContent(r)

-----------------------------------------------------------------------------
(* Routing: the connection table of xfn.PackagedFunctionRunner.              *)
(* Function fa has a revision whose endpoint is server A1 (speaks v1) or A2   *)
(* (speaks v1beta1 only); function fb is served by B1.  Operations:           *)
(*   runA / runB  RunFunction("fa" / "fb")                                    *)
(*   moveA   the status.endpoint of fa's current revision changes (A1 <-> A2) *)
(*   rollA   a new revision of fa becomes the active one, on the other        *)
(*           endpoint; the old revision stays, inactive, on the old endpoint  *)
(*   pauseA  fa's current revision becomes inactive (no active revision)      *)
(*   uninstA fa and its revisions are removed;  instA: installed again (A1)   *)
(*   gc      GarbageCollectConnectionsNow                                     *)
(***************************************************************************)
RouteOps == {"runA", "runB", "moveA", "rollA", "pauseA", "uninstA", "instA", "gc"}
Other(ep) == IF ep = "A1" THEN "A2" ELSE "A1"
RInit == [inst |-> TRUE, act |-> TRUE, ep |-> "A1"]
RStep(s, op) ==
  CASE op = "moveA"   -> (IF s.inst THEN [s EXCEPT !.ep = Other(@)] ELSE s)
    [] op = "rollA"   -> (IF s.inst THEN [s EXCEPT !.ep = Other(@), !.act = TRUE] ELSE s)
    [] op = "pauseA"  -> (IF s.inst THEN [s EXCEPT !.act = FALSE] ELSE s)
    [] op = "uninstA" -> [s EXCEPT !.inst = FALSE]
    [] op = "instA"   -> (IF s.inst THEN s ELSE RInit)
    [] OTHER          -> s
RECURSIVE RState(_, _)
RState(ops, j) == IF j = 0 THEN RInit ELSE RStep(RState(ops, j - 1), ops[j])      \* state after the first j operations
\* the server that must receive operation j ("none": nobody may)
RExp(ops, j) ==
  LET s == RState(ops, j - 1) IN
  CASE ops[j] = "runA" -> (IF s.inst /\ s.act THEN s.ep ELSE "none")
    [] ops[j] = "runB" -> "B1"
    [] OTHER           -> "none"
RouteRef(ops) == [j \in DOMAIN ops |-> [op |-> ops[j], server |-> RExp(ops, j)]]

\* a routing run: r.in.ops and r.ops = per operation [op, ok, server, conn, api, sent, got, rsent, rgot, closed]
IsRun(op) == op \in {"runA", "runB"}
RoutingOps(r) == Len(r.ops) = Len(r.in.ops) /\ \A j \in DOMAIN r.ops : r.ops[j].op = r.in.ops[j]
RoutingEndpoint(r) ==      \* each call reaches the endpoint of the ACTIVE revision of the named function, and nobody else
  \A j \in DOMAIN r.ops : r.ops[j].server = RExp(r.in.ops, j)
RoutingDelivered(r) ==
  \A j \in DOMAIN r.ops : (IsRun(r.ops[j].op) /\ RExp(r.in.ops, j) # "none") => r.ops[j].ok
RoutingSameContent(r) ==   \* the request arrives, and the response returns, with equal content (v1beta1 re-encoding included)
  \A j \in DOMAIN r.ops :
    /\ r.ops[j].server # "none" => r.ops[j].got = r.ops[j].sent
    /\ (r.ops[j].server # "none" /\ r.ops[j].ok) => r.ops[j].rgot = r.ops[j].rsent
RoutingClosedAfterGC(r) == \* after fa was uninstalled and the collector ran, every connection that carried fa's calls is closed
  \A j \in DOMAIN r.ops :
    (r.ops[j].op = "gc" /\ ~RState(r.in.ops, j).inst) =>
      \A i \in 1..(j - 1) :
        (r.ops[i].op = "runA" /\ r.ops[i].conn # "none") => r.ops[i].conn \in Range(r.ops[j].closed)
RoutingFormulas(r) ==
  RoutingOps(r) /\ RoutingEndpoint(r) /\ RoutingDelivered(r) /\ RoutingSameContent(r) /\ RoutingClosedAfterGC(r)
=============================================================================
