SPECIFICATION Spec
CONSTANTS
  USeq <- S1
  Useds <- U1
  Configs <- CfgBasic
  InitSel <- NoSet
  InitCtl <- NoSet
  Policies <- Pol1
  DryRuns <- OnlyFalse
  HookFaults <- HookOk
  EnvKinds <- EnvUsage
  FaultKinds <- FaultsAll
  MaxCreates = 1
  MaxRecs = 4
  MaxFaults = 2
  MaxEnv = 2
  MaxDel = 0
  MidEnv = TRUE
  BFin = FALSE
  FinFirst = TRUE
  DryRunAware = TRUE
  PanicFree = TRUE
VIEW view
ACTION_CONSTRAINT Emit
CHECK_DEADLOCK FALSE
INVARIANTS TypeOK StepProps FinBeforeLabel FinResolved OwnOnlyBy PendSane Repaired
