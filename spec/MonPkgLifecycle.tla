---------------------------- MODULE MonPkgLifecycle ----------------------------
(***************************************************************************)
(* Trace monitor for PkgLifecycle (X07): evaluates the properties M1..M6,  *)
(* R1..R6 of PkgLifecycle.tla on every recorded state / step of executions *)
(* of the real package manager reconciler and the real revision reconciler *)
(* (one world, real ImageConfig store, Revisioner, ImageBackend, parser,   *)
(* linter, dependency manager, finalizer, applicator; recording fakes for  *)
(* registry, cache, establisher, hooks).  Fully logged trace, linear       *)
(* search.  Record fields:                                                 *)
(*   ev       reset | start | call | seam | env | end | settled            *)
(*   actor    mgr | rev | none;  tgt: the revision the revision reconciler *)
(*            handles;  name: the revision a call is about                 *)
(*   abs/cls/kind/verb/outcome/injected/applied/noop : the call            *)
(*   seen     the package / revision as this reconcile's first Get         *)
(*            returned it (secs: its own packagePullSecrets)               *)
(*   listed   the revisions as this manager reconcile listed them          *)
(*   configs  (on head / fetch events) the ImageConfigs as this reconcile  *)
(*            listed them: name, prefixes (sequences of characters),       *)
(*            secret; arg.src: the image as a sequence of characters,      *)
(*            arg.secrets: the pull secrets handed to the registry         *)
(*   cur      the revision the registry named current in this reconcile    *)
(*   stages   what happened so far in this reconcile ("pre:ok",            *)
(*            "removeself:ok", "apply:r1", "meta:ok" ...)                  *)
(*   fails    the calls of this reconcile that did not answer ok           *)
(*   evs      the events recorded in this reconcile ("Type:Reason")         *)
(*   post     projection of the world after the step                       *)
(*   end:     result, requeue, after (ms), clean (fault-free, undisturbed),*)
(*            steady (... and the world is as this reconciler's last clean *)
(*            reconcile left it), prevDigest / post.digest (resource       *)
(*            versions before / after: time passes between reconciles -    *)
(*            the driver moves every lastTransitionTime into the past)     *)
(*   settled: the state after the fault-free aftermath (reconcilers run    *)
(*            when triggered, then everybody once more: stable = that last *)
(*            round wrote nothing)                                         *)
(* A false formula prints VIOL|name|line|scenario; the monitor goes on.    *)
(***************************************************************************)
EXTENDS Integers, Sequences, FiniteSets, TLC, Json, IOUtils

Trace == ndJsonDeserialize(IOEnv.VERIF_TRACE)
VARIABLE l
Range(s) == {s[i] : i \in DOMAIN s}
PullWaitMs == 60000

P(e) == e.post.pkg
Rv(e, a) == CHOOSE r \in Range(e.post.revs) : r.name = a
RevNames == {"r1", "r2"}
Me(e) == Rv(e, e.tgt)
IsCall(e) == e.ev = "call"
IsSeam(e) == e.ev = "seam"
Wrote(e) == IsCall(e) /\ e.applied /\ ~e.noop
ByCtl(e) == e.ev \in {"call", "seam", "end"}
Mgr(e) == e.actor = "mgr"
Rev(e) == e.actor = "rev"
Step(e) == e.ev \in {"call", "seam"}
Ended(e) == e.ev = "end" /\ e.result # "crashed"
StatusLanded(e) == IsCall(e) /\ e.cls = "status" /\ e.outcome = "ok"
Stage(e, s) == s \in Range(e.stages)
Evt(e, x) == x \in Range(e.evs)
HTrue == "True:HealthyPackageRevision"
HFalse == "False:UnhealthyPackageRevision"
HUnknown == "Unknown:UnknownPackageRevisionHealth"
Paused == "False:ReconcilePaused"
Warnings == {"Warning:ImageConfigSelection", "Warning:SyncPackage", "Warning:DeactivateRevision", "Warning:ParsePackage", "Warning:LintPackage",
             "Warning:ResolveDependencies", "Warning:ListRevision", "Warning:UnpackPackage", "Warning:TransitionRevision",
             "Warning:GarbageCollect"}

Saw(e) == e.seen.got /\ e.seen.ex
SawPaused(e) == Saw(e) /\ e.seen.paused
\* the pass that only removes the conditions of an object that is no longer paused
SawCleaning(e) == Saw(e) /\ ~e.seen.paused /\ e.seen.pcond /\ (Rev(e) => ~e.seen.del)
SawDeleting(e) == Rev(e) /\ Saw(e) /\ ~e.seen.paused /\ e.seen.del
SawWork(e) == Saw(e) /\ ~e.seen.paused /\ ~e.seen.pcond /\ (Rev(e) => ~e.seen.del)
SawInactive(e) == Rev(e) /\ SawWork(e) /\ e.seen.des = "Inactive"
\* everything of a revision but ...
RevSpec(r) == <<r.des, r.src, r.pull, r.ign, r.skip, r.rtc, r.ccr, r.lab, r.sec>>
RevMeta(r) == <<r.ex, r.del, r.paused, r.ofin, r.ctrl, r.bod, r.plab, r.ulab, r.rest>>
RevStatus(r) == <<r.refs, r.synced, r.healthy, r.hstep, r.hmsg, r.nconds>>
PkgSpec(p) == <<p.ex, p.paused, p.del, p.src, p.pull, p.ign, p.skip, p.rtc, p.ccr, p.lab, p.sec, p.pol, p.rest>>

----------------------------------------------------------------------------
(* M1 / R1: paused                                                         *)
PausedCalls(e) == (Step(e) /\ SawPaused(e)) => (IsCall(e) /\ e.cls \in {"get", "status"} /\ e.kind \in {"pkg", "rev"})
PausedCondition(e) == (StatusLanded(e) /\ SawPaused(e)) => (IF Mgr(e) THEN P(e).synced ELSE Me(e).synced) = Paused
\* ("if status update fails, we will reconcile again to retry to update the status": only then is it requeued)
PausedExit(e) == (Ended(e) /\ SawPaused(e)) =>
                   /\ Evt(e, "Normal:ReconciliationPaused")
                   /\ (e.fails = <<>> => (e.result = "ok" /\ ~e.requeue /\ e.after = 0))
                   /\ (e.fails # <<>> => (e.requeue \/ e.result = "error"))
UnpauseCalls(e) == (Step(e) /\ SawCleaning(e)) => (IsCall(e) /\ e.cls \in {"get", "status"} /\ e.kind \in {"pkg", "rev"})
UnpauseCleans(e) == (StatusLanded(e) /\ SawCleaning(e)) => (IF Mgr(e) THEN P(e).nconds ELSE Me(e).nconds) = 0
\* nobody ever writes the package's spec or metadata; a status write changes nothing but the status
PkgSpecUntouched(p, e) == (ByCtl(e) /\ P(p).ex /\ P(e).ex) => PkgSpec(P(e)) = PkgSpec(P(p))
PkgOnlyStatusWrites(e) == (Wrote(e) /\ e.kind = "pkg") => (e.verb = "update-status" /\ Mgr(e))
RevStatusOnlyStatus(p, e) ==
  (Wrote(e) /\ e.kind = "rev" /\ e.verb = "update-status" /\ Rv(p, e.name).ex /\ Rv(e, e.name).ex) =>
     (RevSpec(Rv(e, e.name)) = RevSpec(Rv(p, e.name)) /\ RevMeta(Rv(e, e.name)) = RevMeta(Rv(p, e.name))
      /\ Rv(e, e.name).fin = Rv(p, e.name).fin /\ Rv(e, e.name).mlab = Rv(p, e.name).mlab)
\* what each reconciler writes at all
MgrWritesOnly(e) == (Wrote(e) /\ Mgr(e)) => e.kind \in {"pkg", "rev"}
RevWritesOnly(e) == (Wrote(e) /\ Rev(e)) => ((e.kind = "rev" /\ e.name = e.tgt) \/ e.kind = "lock")
\* the revision reconciler never changes a revision's spec, owner or parent label
RevSpecUntouched(p, e) ==
  (Wrote(e) /\ Rev(e) /\ e.kind = "rev" /\ Rv(p, e.name).ex /\ Rv(e, e.name).ex) =>
     (RevSpec(Rv(e, e.name)) = RevSpec(Rv(p, e.name)) /\ Rv(e, e.name).ctrl = Rv(p, e.name).ctrl /\ Rv(e, e.name).plab = Rv(p, e.name).plab
      /\ Rv(e, e.name).ulab = Rv(p, e.name).ulab /\ Rv(e, e.name).rest = Rv(p, e.name).rest /\ Rv(e, e.name).ofin = Rv(p, e.name).ofin)
GoneCalls(e) == (Step(e) /\ e.seen.got /\ ~e.seen.ex) => (IsCall(e) /\ e.cls = "get")
GoneExit(e) == (Ended(e) /\ e.seen.got /\ ~e.seen.ex) => (e.result = "ok" /\ ~e.requeue /\ e.after = 0)

----------------------------------------------------------------------------
(* M2 / R: the ImageConfig selection and the pull secrets (head: manager, fetch: revision reconciler)                   *)
IsPrefix(p, s) == Len(p) <= Len(s) /\ SubSeq(s, 1, Len(p)) = p
MatchLens(e, c) == {Len(c.prefixes[i]) : i \in {j \in DOMAIN c.prefixes : IsPrefix(c.prefixes[j], e.arg.src)}}
Cands(e) == {c \in Range(e.configs) : c.secret # "none" /\ MatchLens(e, c) # {}}
Max(S) == CHOOSE m \in S : \A x \in S : x <= m
Best(e) == LET L == Max(UNION {MatchLens(e, c) : c \in Cands(e)}) IN {c.secret : c \in {d \in Cands(e) : L \in MatchLens(e, d)}}
Registry(e) == IsSeam(e) /\ e.cls \in {"head", "fetch"}
Own(e) == e.seen.secs
Extra(e) == IF Len(e.arg.secrets) > Len(Own(e)) THEN e.arg.secrets[Len(e.arg.secrets)] ELSE "none"
\* the package's / revision's own pull secrets come first and are all there; at most one more follows
SecretsOwnKept(e) == Registry(e) => (Len(e.arg.secrets) \in {Len(Own(e)), Len(Own(e)) + 1} /\ SubSeq(e.arg.secrets, 1, Len(Own(e))) = Own(e))
\* ... the secret of a config with the longest matching prefix among those that have a pull secret; none if none matches
SelectLongest(e) == Registry(e) => (IF Cands(e) = {} THEN Extra(e) = "none" ELSE Extra(e) \in Best(e))
\* the current revision as the Revisioner determines it
CurOf(e) == IF e.cur # "none" THEN e.cur
            ELSE IF e.seen.pull = "IfNotPresent" /\ e.seen.curId = e.seen.src /\ e.seen.curRev # "none" THEN e.seen.curRev ELSE "none"
ListedNames(e) == {x.name : x \in Range(e.listed)}
ListedOf(e, a) == {x \in Range(e.listed) : x.name = a}
\* the manager records the selection only when the revision is new
SelectEventOnlyNew(e) == (Ended(e) /\ Mgr(e) /\ Evt(e, "Normal:ImageConfigSelection")) => CurOf(e) \notin ListedNames(e)

----------------------------------------------------------------------------
(* M3: what the manager hands down                                         *)
ApplyLanded(e) == IsCall(e) /\ Mgr(e) /\ e.cls \in {"patch", "create"} /\ e.outcome = "ok"
ApplyCur(e) == ApplyLanded(e) /\ e.name = CurOf(e) /\ Rv(e, e.name).ex
HD(e, f(_, _)) == ApplyCur(e) => f(Rv(e, e.name), e.seen)
HandDownSource(e) == HD(e, LAMBDA r, s : r.src = s.src)
HandDownPullPolicy(e) == HD(e, LAMBDA r, s : r.pull = s.pull)
HandDownIgnore(e) == HD(e, LAMBDA r, s : r.ign = s.ign)
HandDownSkip(e) == HD(e, LAMBDA r, s : r.skip = s.skip)
HandDownRuntimeConfig(e) == HD(e, LAMBDA r, s : r.rtc = s.rtc)
HandDownPullSecrets(e) == HD(e, LAMBDA r, s : s.sec # "none" => r.sec = s.sec)
HandDownControllerConfig(e) == HD(e, LAMBDA r, s : s.ccr # "none" => r.ccr = s.ccr)
HandDownOwner(e) == HD(e, LAMBDA r, s : r.ctrl = "pkg" /\ r.bod /\ r.plab = "pkg")
\* commonLabels are in line (removed keys included) by the time the manager writes the package's status
ApplyDone(e) == CurOf(e) # "none" /\ Stage(e, "apply:" \o CurOf(e))
AllHandedDown(e) == IsCall(e) /\ Mgr(e) /\ e.abs = "status:pkg" /\ ApplyDone(e) /\ Rv(e, CurOf(e)).ex
HandDownCommonLabels(e) == AllHandedDown(e) => Rv(e, CurOf(e)).lab = e.seen.lab
\* ... and so is what the user removed from the package (an absent key does nothing in a merge patch: it takes a second
\* write, as for the labels; 5d1ffe1, F-a)
HandDownPullSecretsRemoved(e) == (AllHandedDown(e) /\ e.seen.sec = "none") => Rv(e, CurOf(e)).sec = "none"
HandDownControllerConfigRemoved(e) == (AllHandedDown(e) /\ e.seen.ccr = "none") => Rv(e, CurOf(e)).ccr = "none"
\* desired state of the current revision
ActivateAutomatic(e) == (ApplyCur(e) /\ e.seen.pol \in {"none", "Automatic"}) => Rv(e, e.name).des = "Active"
\* policy Manual: left as listed; a revision without a desired state (a new one) is made Inactive (5866e3a; F-c)
ActivateManual(e) == (ApplyCur(e) /\ e.seen.pol = "Manual") =>
                        LET was == IF ListedOf(e, e.name) = {} THEN "empty" ELSE (CHOOSE x \in ListedOf(e, e.name) : TRUE).des IN
                        Rv(e, e.name).des = (IF was = "empty" THEN "Inactive" ELSE was)
\* whatever the policy: the manager never leaves the current revision without a desired state
ActivateDefined(e) == ApplyCur(e) => Rv(e, e.name).des \in {"Active", "Inactive"}
\* the other revisions: one field, Active -> Inactive
NonCurWrite(e) == Wrote(e) /\ Mgr(e) /\ e.kind = "rev" /\ e.name # CurOf(e)
DeactivateOnly(p, e) ==
  NonCurWrite(e) => LET a == Rv(p, e.name) b == Rv(e, e.name) IN
                    /\ a.ex /\ b.ex /\ a.des = "Active" /\ b.des = "Inactive"
                    /\ [k \in 1..8 |-> RevSpec(b)[k + 1]] = [k \in 1..8 |-> RevSpec(a)[k + 1]]
                    /\ RevMeta(b) = RevMeta(a) /\ RevStatus(b) = RevStatus(a) /\ b.fin = a.fin /\ b.mlab = a.mlab
\* a revision that another owner controls is never written by the manager
ForeignUntouched(p, e) == (Wrote(e) /\ Mgr(e) /\ e.kind = "rev") => Rv(p, e.name).ctrl # "foreign"
\* the manager's writes to the current revision never touch what the revision reconciler owns
ApplyKeepsRest(p, e) ==
  (Wrote(e) /\ Mgr(e) /\ e.kind = "rev" /\ Rv(p, e.name).ex /\ Rv(e, e.name).ex) =>
     LET a == Rv(p, e.name) b == Rv(e, e.name) IN
     /\ b.fin = a.fin /\ b.ofin = a.ofin /\ b.mlab = a.mlab /\ b.ulab = a.ulab /\ b.del = a.del /\ b.paused = a.paused /\ RevStatus(b) = RevStatus(a)

----------------------------------------------------------------------------
(* M4: the package's status                                                *)
FinalStatus(e) == StatusLanded(e) /\ Mgr(e) /\ e.abs = "status:pkg" /\ SawWork(e) /\ ApplyDone(e)
\* (the same seen from the end of the reconcile: between reconciles of the aftermath only the ends are recorded)
FinalDone(e) == FinalStatus(e) \/ (e.ev = "end" /\ Mgr(e) /\ SawWork(e) /\ ApplyDone(e) /\ e.statusOK)
StatusCurrent(e) == FinalStatus(e) => (P(e).curRev = CurOf(e) /\ P(e).curId = e.seen.src)
StatusCurrentOnlyFinal(p, e) ==
  (ByCtl(e) /\ P(p).ex /\ P(e).ex /\ (P(e).curRev # P(p).curRev \/ P(e).curId # P(p).curId)) => FinalDone(e)
StatusInstalled(e) == (FinalStatus(e) /\ Rv(e, CurOf(e)).ex) =>
                         P(e).inst = (IF Rv(e, CurOf(e)).des = "Active" THEN "True:ActivePackageRevision" ELSE "False:InactivePackageRevision")
MirrorOf(h) == IF h \in {HTrue, HFalse} THEN h ELSE HUnknown
HealthMirror(e) ==
  FinalStatus(e) =>
     IF ListedOf(e, CurOf(e)) = {} THEN P(e).healthy = HUnknown
     ELSE LET x == CHOOSE y \in ListedOf(e, CurOf(e)) : TRUE IN
          P(e).healthy = MirrorOf(x.healthy) /\ (x.healthy = HFalse => P(e).hmsg = x.hmsg)
\* Healthy=True appears on the package only when the current revision said so when this reconcile listed it
HealthTrueOnlyIfListedTrue(p, e) ==
  (ByCtl(e) /\ P(e).ex /\ P(e).healthy = HTrue /\ (~P(p).ex \/ P(p).healthy # HTrue)) =>
     (Mgr(e) /\ \E x \in ListedOf(e, CurOf(e)) : x.healthy = HTrue)
\* the health of the package is only written by the final status update (and wiped by the un-pause pass)
HealthOnlyFinal(p, e) ==
  (ByCtl(e) /\ P(p).ex /\ P(e).ex /\ P(e).healthy # P(p).healthy) => (FinalDone(e) \/ (SawCleaning(e) /\ Mgr(e)))

----------------------------------------------------------------------------
(* M5: the manager's exits                                                 *)
\* (NotFound from the Get of Apply means "create"; NotFound from the first Get means "gone")
RealFailsM(e) == SelectSeq(e.fails, LAMBDA f : ~(f.outcome = "notfound" /\ f.cls \in {"aget", "get"}))
LastOf(s) == s[Len(s)]
Failed(e, abs) == \E f \in Range(e.fails) : f.abs = abs
FailedCls(e, cls, out) == \E f \in Range(e.fails) : f.cls = cls /\ f.outcome = out
ExitPullConfigCondition(e) == (StatusLanded(e) /\ Mgr(e) /\ SawWork(e) /\ Failed(e, "list:ic")) =>
                                 (P(e).inst = "False:UnpackingPackage" /\ P(e).istep = "pullconfig")
ExitPullConfig(e) == (Ended(e) /\ Mgr(e) /\ SawWork(e) /\ Failed(e, "list:ic")) => (Evt(e, "Warning:ImageConfigSelection") /\ e.result = "error")
ExitUnpackCondition(e) == (StatusLanded(e) /\ Mgr(e) /\ FailedCls(e, "head", "error")) =>
                             (P(e).inst = "False:UnpackingPackage" /\ P(e).istep = "unpack")
ExitUnpack(e) == (Ended(e) /\ Mgr(e) /\ FailedCls(e, "head", "error")) => (Evt(e, "Warning:UnpackPackage") /\ (e.result = "error" \/ e.requeue))
ExitWaitingCondition(e) == (StatusLanded(e) /\ Mgr(e) /\ FailedCls(e, "head", "empty")) =>
                              (P(e).inst = "False:UnpackingPackage" /\ P(e).istep = "waiting")
ExitWaiting(e) == (Ended(e) /\ Mgr(e) /\ FailedCls(e, "head", "empty")) => (Evt(e, "Normal:UnpackPackage") /\ (e.requeue \/ e.result = "error"))
\* after a failed List / Apply / Update of a revision the package's status is not written
RevFailsM(e) == SelectSeq(RealFailsM(e), LAMBDA f : f.kind = "rev")
ExitNoStatus(e) == (IsCall(e) /\ Mgr(e) /\ e.abs = "status:pkg") => RevFailsM(e) = <<>>
ExitEventM(e) ==
  (Ended(e) /\ Mgr(e) /\ RevFailsM(e) # <<>> /\ LastOf(RevFailsM(e)).outcome # "conflict") =>
     LET f == LastOf(RevFailsM(e)) IN
     /\ e.result = "error"
     /\ Evt(e, IF f.abs = "list:rev" THEN "Warning:ListRevision"
               ELSE IF f.abs \in {"aget:" \o CurOf(e), "patch:" \o CurOf(e), "create:" \o CurOf(e), "update:" \o CurOf(e)} THEN "Warning:InstallPackageRevision"
               ELSE "Warning:TransitionRevision")
\* a Conflict: requeue at once, no error, no event for it
ExitConflictM(e) ==
  (Ended(e) /\ Mgr(e) /\ RevFailsM(e) # <<>> /\ LastOf(RevFailsM(e)).outcome = "conflict") =>
     (e.result = "ok" /\ e.requeue /\ ~Evt(e, "Warning:TransitionRevision") /\ ~Evt(e, "Warning:ListRevision"))
RequeueOnFailureM(e) == (Ended(e) /\ Mgr(e) /\ Saw(e) /\ RealFailsM(e) # <<>>) => (e.requeue \/ e.result = "error")
RequeueFinal(e) == (Ended(e) /\ Mgr(e) /\ SawWork(e) /\ e.result = "ok" /\ RealFailsM(e) = <<>> /\ e.statusOK /\ ApplyDone(e)) =>
                      (~e.requeue /\ e.after = (IF e.seen.pull = "Always" THEN PullWaitMs ELSE 0))

----------------------------------------------------------------------------
(* M6 / R: fixed point                                                     *)
Fixed(e) == e.ev = "end" /\ e.steady /\ ~e.prevCleaning
InactivePkg(e) == P(e).ex /\ P(e).inst = "False:InactivePackageRevision"
QuiescentMgr(e) == (Fixed(e) /\ Mgr(e) /\ ~InactivePkg(e)) => e.post.digest = e.prevDigest
QuiescentMgrInactive(e) == (Fixed(e) /\ Mgr(e) /\ InactivePkg(e)) => e.post.digest = e.prevDigest
\* (named separately: the old revision has not left the Lock yet - see F-d in PkgLifecycle.tla)
QuiescentRev(e) == (Fixed(e) /\ Rev(e) /\ Len(e.post.lock.entries) < 2) => e.post.digest = e.prevDigest
QuiescentRevTwoInLock(e) == (Fixed(e) /\ Rev(e) /\ Len(e.post.lock.entries) >= 2) => e.post.digest = e.prevDigest

----------------------------------------------------------------------------
(* R2: deletion                                                            *)
DeletingCalls(e) == (Step(e) /\ SawDeleting(e)) =>
                      \/ IsCall(e) /\ (e.cls \in {"get", "rmfin"} \/ e.kind = "lock") /\ e.cls # "status"
                      \/ IsSeam(e) /\ e.cls \in {"cachedel", "removeself"}
LostFin(p, e) == ByCtl(e) /\ Rev(e) /\ Rv(p, e.tgt).ex /\ Rv(p, e.tgt).fin /\ (~Me(e).ex \/ ~Me(e).fin)
DeletingCacheFirst(p, e) == LostFin(p, e) => (Stage(e, "cachedel:ok") /\ e.tgt \notin Range(e.post.cache))
DeletingLockStage(p, e) == LostFin(p, e) => Stage(e, "removeself:ok")
\* the Lock was there but the (cached) read did not see it
MissedLock(e) == e.post.lock.ex /\ \E f \in Range(e.fails) : f.abs = "get:lock" /\ f.outcome = "notfound"
DeletingLockFirst(p, e) == (LostFin(p, e) /\ ~MissedLock(e)) => e.tgt \notin Range(e.post.lock.entries)
DeletingLockFirstCacheMiss(p, e) == (LostFin(p, e) /\ MissedLock(e)) => e.tgt \notin Range(e.post.lock.entries)
\* the only non-status write to a revision that is being deleted removes our finalizer and nothing else
DeletingOnlyFinalizer(p, e) ==
  (Wrote(e) /\ Rev(e) /\ e.kind = "rev" /\ e.verb # "update-status" /\ Rv(p, e.tgt).ex /\ Rv(p, e.tgt).del) =>
     (Rv(p, e.tgt).fin /\ (~Me(e).ex \/ (~Me(e).fin /\ RevSpec(Me(e)) = RevSpec(Rv(p, e.tgt)) /\ RevMeta(Me(e)) = RevMeta(Rv(p, e.tgt)))))
\* our finalizer only ever leaves a revision that is being deleted (and is not paused), whoever writes
FinalizerKept(p, e) == ByCtl(e) => \A a \in RevNames : (Rv(p, a).ex /\ Rv(p, a).fin /\ (~Rv(p, a).del \/ Rv(p, a).paused)) => (Rv(e, a).ex /\ Rv(e, a).fin)

----------------------------------------------------------------------------
(* R3: finalizer first                                                     *)
Effect(e) == IsSeam(e) /\ Rev(e) /\ e.cls \in {"fetch", "release", "deactivate", "pre", "establish", "post"}
FinalizerFirst(e) == (Effect(e) /\ Me(e).ex) => (Me(e).fin /\ e.arg.fin)
FinalizerBeforeLock(e) == (Wrote(e) /\ Rev(e) /\ e.kind = "lock" /\ ~SawDeleting(e) /\ Me(e).ex) => Me(e).fin

----------------------------------------------------------------------------
(* R4: order of the stages                                                 *)
SeamOf(e, S) == IsSeam(e) /\ Rev(e) /\ e.cls \in S
OrderRelease(e) == SeamOf(e, {"release"}) => (SawInactive(e) /\ Stage(e, "removeself:ok"))
OrderDeactivate(e) == SeamOf(e, {"deactivate"}) => (SawInactive(e) /\ Stage(e, "release:ok"))
OrderInactiveFirst(e) == (SawInactive(e) /\ SeamOf(e, {"cache", "fetch", "parse", "lint", "resolving", "pre", "establish", "post"})) => Stage(e, "deactivate:ok")
\* an Inactive revision that knows its objects does no more than that
InactiveWithRefs(e) == (Step(e) /\ SawInactive(e) /\ e.seen.refs > 0 /\ IsSeam(e)) => e.cls \in {"removeself", "release", "deactivate"}
OrderContent(e) == /\ SeamOf(e, {"fetch"}) => (Stage(e, "cache:absent") \/ Stage(e, "cache:miss"))
                   /\ SeamOf(e, {"parse"}) => (Stage(e, "cache:hit") \/ Stage(e, "fetch:ok"))
                   /\ SeamOf(e, {"lint"}) => Stage(e, "parse:ok")
                   /\ (IsCall(e) /\ Rev(e) /\ e.cls = "meta") => Stage(e, "lint:ok")
OrderGate(e) == SeamOf(e, {"resolving", "pre", "establish", "post"}) => (Stage(e, "meta:ok") /\ (e.post.compat[e.tgt] \/ e.seen.ign = "true"))
OrderResolve(e) == SeamOf(e, {"resolving"}) => e.seen.skip = "false"
OrderPre(e) == SeamOf(e, {"pre"}) => (e.seen.skip = "false" => Stage(e, "resolve:ok"))
OrderEstablish(e) == SeamOf(e, {"establish"}) => Stage(e, "pre:ok")
OrderPost(e) == SeamOf(e, {"post"}) => Stage(e, "establish:ok")
EstablishControl(e) == SeamOf(e, {"establish"}) => (e.arg.control <=> e.seen.des = "Active")
\* an Inactive revision never enters the Lock; an Active one that resolved is in it
InactiveNoLockEntry(p, e) == (Wrote(e) /\ Rev(e) /\ e.kind = "lock" /\ SawInactive(e)) => Range(e.post.lock.entries) \subseteq Range(p.post.lock.entries)
ResolveAddsSelf(e) == (IsSeam(e) /\ e.cls = "resolve" /\ e.outcome = "ok" /\ e.seen.des # "Inactive") => e.tgt \in Range(e.post.lock.entries)
LockOnlyOwnEntry(p, e) == (Wrote(e) /\ Rev(e) /\ e.kind = "lock") =>
                             (Range(e.post.lock.entries) \ {e.tgt} = Range(p.post.lock.entries) \ {e.tgt})
\* status.objectRefs changes only with the status update that follows a successful Establish
RefsAfterEstablish(p, e) == (ByCtl(e) /\ \E a \in RevNames : Rv(p, a).ex /\ Rv(e, a).ex /\ Rv(e, a).refs # Rv(p, a).refs) =>
                               (Rev(e) /\ Stage(e, "establish:ok") /\ Me(e).refs > 0)
\* labels of the package meta are added, nothing else moves
MetaAdds(p, e) == (Wrote(e) /\ Rev(e) /\ e.cls = "meta" /\ Me(e).ex) =>
                     (Me(e).mlab /\ RevMeta(Me(e)) = RevMeta(Rv(p, e.tgt)) /\ Me(e).fin = Rv(p, e.tgt).fin /\ RevStatus(Me(e)) = RevStatus(Rv(p, e.tgt)))

----------------------------------------------------------------------------
(* R5: the revision reconciler's exits                                     *)
\* (not failures: the first Get of a revision that is gone; a Lock that does not exist (yet); RemoveFinalizer of a
\*  revision that is gone; a cache entry that is not there)
RealFailsR(e) == SelectSeq(e.fails, LAMBDA f : ~(f.outcome = "notfound" /\ (f.abs = "get:lock" \/ f.cls = "rmfin" \/ (f.cls = "get" /\ f.kind = "rev")))
                                             /\ ~(f.cls = "cache" /\ f.outcome = "miss"))
PriorFails(e) == SelectSeq(RealFailsR(e), LAMBDA f : f.cls # "status")
StepOfFail(e, f) ==
  CASE f.abs = "list:ic" -> "listic"
    [] f.kind \in {"drc", "cc", "sa"} -> "options"
    [] f.kind = "lock" -> (IF Stage(e, "resolving:start") THEN "resolve" ELSE "removeself")
    [] f.cls = "cache" -> "cacheget"
    [] f.cls \in {"fetch", "parse", "lint", "meta", "pre", "establish", "post", "addfin", "rmfin", "cachedel", "release", "deactivate",
                  "resolve", "removeself"} -> f.cls
    [] OTHER -> "unknown"
ConditionSteps == {"listic", "options", "fetch", "parse", "lint", "meta", "pre", "establish", "post", "resolve"}
EventOnlySteps == {"addfin", "rmfin", "cachedel", "removeself", "release", "deactivate", "cacheget"}
EventOfStep(e, s) ==
  CASE s = "listic" -> "Warning:ImageConfigSelection"
    [] s \in {"options", "meta", "pre", "establish", "post", "addfin", "rmfin", "cachedel"} -> "Warning:SyncPackage"
    [] s = "removeself" -> (IF SawDeleting(e) THEN "Warning:SyncPackage" ELSE "Warning:DeactivateRevision")
    [] s \in {"release", "deactivate"} -> "Warning:DeactivateRevision"
    [] s \in {"cacheget", "fetch", "parse"} -> "Warning:ParsePackage"
    [] s = "lint" -> "Warning:LintPackage"
    [] s = "resolve" -> "Warning:ResolveDependencies"
    [] OTHER -> "?"
FailedStep(e) == StepOfFail(e, LastOf(PriorFails(e)))
\* a status write of a reconcile in which a step failed reports that step: Healthy=False (Unknown for Resolve) + its message
ExitCondition(e) ==
  (StatusLanded(e) /\ Rev(e) /\ SawWork(e) /\ PriorFails(e) # <<>>) =>
     /\ FailedStep(e) \in ConditionSteps
     /\ Me(e).healthy = (IF FailedStep(e) = "resolve" THEN HUnknown ELSE HFalse)
     /\ Me(e).hstep = FailedStep(e)
\* ... and without a failed step Healthy=False can only be the version gate
ExitIncompatible(e) ==
  (StatusLanded(e) /\ Rev(e) /\ SawWork(e) /\ PriorFails(e) = <<>> /\ Me(e).healthy # HTrue) =>
     (Me(e).healthy = HFalse /\ Me(e).hstep = "incompat" /\ ~e.post.compat[e.tgt] /\ e.seen.ign # "true" /\ Stage(e, "meta:ok"))
\* no status write after a step that only records an event, nor after a Conflict
ExitNoStatusR(e) ==
  (IsCall(e) /\ Rev(e) /\ e.cls = "status" /\ SawWork(e) /\ PriorFails(e) # <<>>) =>
     (FailedStep(e) \notin EventOnlySteps /\ LastOf(PriorFails(e)).outcome # "conflict")
ExitEventR(e) ==
  (Ended(e) /\ Rev(e) /\ (SawWork(e) \/ SawDeleting(e)) /\ PriorFails(e) # <<>> /\ LastOf(PriorFails(e)).outcome # "conflict") =>
     (Evt(e, EventOfStep(e, FailedStep(e))) /\ e.result = "error")
ExitConflictR(e) ==
  (Ended(e) /\ Rev(e) /\ (SawWork(e) \/ SawDeleting(e)) /\ PriorFails(e) # <<>> /\ LastOf(PriorFails(e)).outcome = "conflict") =>
     (e.result = "ok" /\ e.requeue /\ Range(e.evs) \cap Warnings = {})
\* Healthy=True only after everything went through
ExitHealthyTrue(e) ==
  (StatusLanded(e) /\ Rev(e) /\ SawWork(e) /\ Me(e).healthy = HTrue) =>
     \/ /\ Stage(e, "establish:ok") /\ Stage(e, "post:ok") /\ Stage(e, "pre:ok") /\ PriorFails(e) = <<>>
        /\ (e.post.compat[e.tgt] \/ e.seen.ign = "true") /\ Me(e).refs > 0
     \/ SawInactive(e) /\ e.seen.refs > 0 /\ Stage(e, "deactivate:ok") /\ PriorFails(e) = <<>>
\* a reconcile that got through says so
ExitSuccess(e) == (StatusLanded(e) /\ Rev(e) /\ SawWork(e) /\ Stage(e, "post:ok")) => Me(e).healthy = HTrue
NeverPolls(e) == (e.ev = "end" /\ Rev(e)) => e.after = 0
RequeueOnlyConflict(e) == (Ended(e) /\ Rev(e) /\ e.requeue) => \E f \in Range(e.fails) : f.outcome = "conflict"
RequeueOnFailureR(e) == (Ended(e) /\ Rev(e) /\ Saw(e) /\ RealFailsR(e) # <<>>) => (e.requeue \/ e.result = "error")
\* the version gate: no error, no requeue ("Package will either need to be updated or ignore crossplane constraints ...")
IncompatibleExit(e) == (Ended(e) /\ Rev(e) /\ SawWork(e) /\ e.fails = <<>> /\ Me(e).ex /\ Me(e).hstep = "incompat" /\ e.statusOK) =>
                          (e.result = "ok" /\ ~e.requeue /\ Evt(e, "Warning:LintPackage"))

----------------------------------------------------------------------------
(* R6: the state the fault-free aftermath reaches                          *)
S(e) == e.ev = "settled"
LivePkg(e) == P(e).ex /\ ~P(e).paused
CurName(e) == IF P(e).src = "s1" THEN "r1" ELSE "r2"
Cur(e) == Rv(e, CurName(e))
\* a revision another owner controls stands in the way (the manager refuses to touch it)
Blocked(e) == \E r \in Range(e.post.revs) : r.ex /\ r.ctrl = "foreign" /\ (r.name = CurName(e) \/ r.des = "Active")
Good(e) == S(e) /\ LivePkg(e) /\ ~Blocked(e)
SettledStable(e) == (S(e) /\ ~(LivePkg(e) /\ InactivePkg(e))) => e.stable
SettledStableInactive(e) == (S(e) /\ LivePkg(e) /\ InactivePkg(e)) => e.stable
SettledPkgPaused(e) == (S(e) /\ P(e).ex) => (P(e).paused <=> P(e).synced = Paused)
SettledCurrent(e) == Good(e) => (P(e).curRev = CurName(e) /\ P(e).curId = P(e).src /\ Cur(e).ex /\ Cur(e).ctrl = "pkg" /\ Cur(e).bod /\ Cur(e).plab = "pkg")
SettledHandDown(e) == (Good(e) /\ Cur(e).ex) =>
                         LET r == Cur(e) p == P(e) IN
                         /\ r.src = p.src /\ r.pull = p.pull /\ r.ign = p.ign /\ r.skip = p.skip /\ r.rtc = p.rtc /\ r.lab = p.lab
                         /\ (p.sec # "none" => r.sec = p.sec) /\ (p.ccr # "none" => r.ccr = p.ccr)
SettledHandDownRemoved(e) == (Good(e) /\ Cur(e).ex) => ((P(e).sec = "none" => Cur(e).sec = "none") /\ (P(e).ccr = "none" => Cur(e).ccr = "none"))
SettledActive(e) == Good(e) => /\ (P(e).pol # "Manual" /\ Cur(e).ex) => Cur(e).des = "Active"
                               /\ \A r \in Range(e.post.revs) : (r.ex /\ r.name # CurName(e) /\ r.ctrl # "foreign") => r.des # "Active"
SettledInstalled(e) == (Good(e) /\ Cur(e).ex) => P(e).inst = (IF Cur(e).des = "Active" THEN "True:ActivePackageRevision" ELSE "False:InactivePackageRevision")
\* the package mirrors what its current revision says NOW
SettledHealthNow(e) == (Good(e) /\ Cur(e).ex) => (P(e).healthy = MirrorOf(Cur(e).healthy) /\ (Cur(e).healthy = HFalse => P(e).hmsg = Cur(e).hmsg))
LiveRev(r) == r.ex /\ ~r.paused /\ ~r.del
SettledRevPaused(e) == S(e) => \A r \in Range(e.post.revs) : r.ex => (r.paused <=> r.synced = Paused)
\* a revision that is being deleted and not paused is gone (or only another finalizer holds it)
SettledRevDeleted(e) == S(e) => \A r \in Range(e.post.revs) : (r.ex /\ r.del /\ ~r.paused) => (~r.fin /\ r.ofin)
\* ... with its cache entry and its Lock entry
SettledGoneCache(e) == S(e) => \A r \in Range(e.post.revs) : (~r.ex \/ (r.del /\ ~r.paused)) => r.name \notin Range(e.post.cache)
SettledGoneLock(e) == S(e) => \A r \in Range(e.post.revs) : (~r.ex \/ (r.del /\ ~r.paused)) => r.name \notin Range(e.post.lock.entries)
SettledRevFinalizer(e) == S(e) => \A r \in Range(e.post.revs) : LiveRev(r) => r.fin
RuntimeOK(e, r) == r.rtc \in Range(e.post.drcs)
GateOK(e, r) == e.post.compat[r.name] \/ r.ign = "true"
\* (desiredState "" is what the manager gives a new revision under the Manual policy: neither Active nor Inactive)
SettledRevHealthOf(e, r) ==
     IF ~RuntimeOK(e, r) THEN r.healthy = HFalse /\ r.hstep = "options"
     ELSE IF r.des = "Inactive" /\ r.refs > 0 THEN r.healthy = HTrue
     ELSE IF ~GateOK(e, r) THEN r.healthy = HFalse /\ r.hstep = "incompat"
     ELSE r.healthy = HTrue /\ r.refs > 0 /\ r.mlab /\ r.name \in Range(e.post.cache)
SettledRevHealth(e) == S(e) => \A r \in Range(e.post.revs) : (LiveRev(r) /\ r.des # "empty") => SettledRevHealthOf(e, r)
SettledRevHealthUndefined(e) == S(e) => \A r \in Range(e.post.revs) : (LiveRev(r) /\ r.des = "empty") => SettledRevHealthOf(e, r)
SettledRevLock(e) ==
  S(e) => \A r \in Range(e.post.revs) : (LiveRev(r) /\ RuntimeOK(e, r)) =>
     /\ r.des = "Inactive" => r.name \notin Range(e.post.lock.entries)
     /\ (r.des # "Inactive" /\ GateOK(e, r) /\ r.skip = "false") => r.name \in Range(e.post.lock.entries)

Viol(name, i) == PrintT("VIOL|" \o name \o "|" \o ToString(i) \o "|" \o Trace[i].scenario)
Check(i) ==
  LET e == Trace[i] IN
  /\ (PausedCalls(e) \/ Viol("Paused.Calls", i))
  /\ (PausedCondition(e) \/ Viol("Paused.Condition", i))
  /\ (PausedExit(e) \/ Viol("Paused.Exit", i))
  /\ (UnpauseCalls(e) \/ Viol("Unpause.Calls", i))
  /\ (UnpauseCleans(e) \/ Viol("Unpause.Cleans", i))
  /\ (PkgOnlyStatusWrites(e) \/ Viol("Pkg.OnlyStatusWrites", i))
  /\ (MgrWritesOnly(e) \/ Viol("Mgr.WritesOnly", i))
  /\ (RevWritesOnly(e) \/ Viol("Rev.WritesOnly", i))
  /\ (GoneCalls(e) \/ Viol("Gone.Calls", i))
  /\ (GoneExit(e) \/ Viol("Gone.Exit", i))
  /\ (SecretsOwnKept(e) \/ Viol("Secrets.OwnKept", i))
  /\ (SelectLongest(e) \/ Viol("Select.Longest", i))
  /\ (SelectEventOnlyNew(e) \/ Viol("Select.EventOnlyNew", i))
  /\ (HandDownSource(e) \/ Viol("Mgr.HandDown.Source", i))
  /\ (HandDownPullPolicy(e) \/ Viol("Mgr.HandDown.PullPolicy", i))
  /\ (HandDownIgnore(e) \/ Viol("Mgr.HandDown.IgnoreConstraints", i))
  /\ (HandDownSkip(e) \/ Viol("Mgr.HandDown.SkipDependencies", i))
  /\ (HandDownRuntimeConfig(e) \/ Viol("Mgr.HandDown.RuntimeConfigRef", i))
  /\ (HandDownPullSecrets(e) \/ Viol("Mgr.HandDown.PullSecrets", i))
  /\ (HandDownPullSecretsRemoved(e) \/ Viol("Mgr.HandDown.PullSecrets.Removed", i))
  /\ (HandDownControllerConfig(e) \/ Viol("Mgr.HandDown.ControllerConfigRef", i))
  /\ (HandDownControllerConfigRemoved(e) \/ Viol("Mgr.HandDown.ControllerConfigRef.Removed", i))
  /\ (HandDownOwner(e) \/ Viol("Mgr.HandDown.Owner", i))
  /\ (HandDownCommonLabels(e) \/ Viol("Mgr.HandDown.CommonLabels", i))
  /\ (ActivateAutomatic(e) \/ Viol("Mgr.Activate.Automatic", i))
  /\ (ActivateManual(e) \/ Viol("Mgr.Activate.Manual", i))
  /\ (ActivateDefined(e) \/ Viol("Mgr.Activate.Defined", i))
  /\ (StatusCurrent(e) \/ Viol("Mgr.Status.Current", i))
  /\ (StatusInstalled(e) \/ Viol("Mgr.Status.Installed", i))
  /\ (HealthMirror(e) \/ Viol("Mgr.Health.Mirror", i))
  /\ (ExitPullConfigCondition(e) \/ Viol("Mgr.Exit.PullConfig.Condition", i))
  /\ (ExitPullConfig(e) \/ Viol("Mgr.Exit.PullConfig", i))
  /\ (ExitUnpackCondition(e) \/ Viol("Mgr.Exit.Unpack.Condition", i))
  /\ (ExitUnpack(e) \/ Viol("Mgr.Exit.Unpack", i))
  /\ (ExitWaitingCondition(e) \/ Viol("Mgr.Exit.Waiting.Condition", i))
  /\ (ExitWaiting(e) \/ Viol("Mgr.Exit.Waiting", i))
  /\ (ExitNoStatus(e) \/ Viol("Mgr.Exit.NoStatus", i))
  /\ (ExitEventM(e) \/ Viol("Mgr.Exit.Event", i))
  /\ (ExitConflictM(e) \/ Viol("Mgr.Exit.Conflict", i))
  /\ (RequeueOnFailureM(e) \/ Viol("Mgr.Requeue.OnFailure", i))
  /\ (RequeueFinal(e) \/ Viol("Mgr.Requeue.Final", i))
  /\ (QuiescentMgr(e) \/ Viol("Mgr.Quiescent", i))
  /\ (QuiescentMgrInactive(e) \/ Viol("Mgr.Quiescent.InactivePackage", i))
  /\ (QuiescentRev(e) \/ Viol("Rev.Quiescent", i))
  /\ (QuiescentRevTwoInLock(e) \/ Viol("Rev.Quiescent.TwoRevisionsInLock", i))
  /\ (DeletingCalls(e) \/ Viol("Rev.Deleting.Calls", i))
  /\ (FinalizerFirst(e) \/ Viol("Rev.Finalizer.First", i))
  /\ (FinalizerBeforeLock(e) \/ Viol("Rev.Finalizer.BeforeLock", i))
  /\ (OrderRelease(e) \/ Viol("Rev.Order.Release", i))
  /\ (OrderDeactivate(e) \/ Viol("Rev.Order.Deactivate", i))
  /\ (OrderInactiveFirst(e) \/ Viol("Rev.Order.InactiveFirst", i))
  /\ (InactiveWithRefs(e) \/ Viol("Rev.Inactive.WithRefs", i))
  /\ (OrderContent(e) \/ Viol("Rev.Order.Content", i))
  /\ (OrderGate(e) \/ Viol("Rev.Order.Gate", i))
  /\ (OrderResolve(e) \/ Viol("Rev.Order.Resolve", i))
  /\ (OrderPre(e) \/ Viol("Rev.Order.Pre", i))
  /\ (OrderEstablish(e) \/ Viol("Rev.Order.Establish", i))
  /\ (OrderPost(e) \/ Viol("Rev.Order.Post", i))
  /\ (EstablishControl(e) \/ Viol("Rev.Establish.Control", i))
  /\ (ResolveAddsSelf(e) \/ Viol("Rev.Resolve.AddsSelf", i))
  /\ (ExitCondition(e) \/ Viol("Rev.Exit.Condition", i))
  /\ (ExitIncompatible(e) \/ Viol("Rev.Exit.Incompatible", i))
  /\ (ExitNoStatusR(e) \/ Viol("Rev.Exit.NoStatus", i))
  /\ (ExitEventR(e) \/ Viol("Rev.Exit.Event", i))
  /\ (ExitConflictR(e) \/ Viol("Rev.Exit.Conflict", i))
  /\ (ExitHealthyTrue(e) \/ Viol("Rev.Exit.HealthyTrue", i))
  /\ (ExitSuccess(e) \/ Viol("Rev.Exit.Success", i))
  /\ (NeverPolls(e) \/ Viol("Rev.Requeue.NeverPolls", i))
  /\ (RequeueOnlyConflict(e) \/ Viol("Rev.Requeue.OnlyConflict", i))
  /\ (RequeueOnFailureR(e) \/ Viol("Rev.Requeue.OnFailure", i))
  /\ (IncompatibleExit(e) \/ Viol("Rev.Exit.Incompatible.NoRequeue", i))
  /\ (SettledStable(e) \/ Viol("Settled.Stable", i))
  /\ (SettledStableInactive(e) \/ Viol("Settled.Stable.InactivePackage", i))
  /\ (SettledPkgPaused(e) \/ Viol("Settled.Pkg.Paused", i))
  /\ (SettledCurrent(e) \/ Viol("Settled.Current", i))
  /\ (SettledHandDown(e) \/ Viol("Settled.HandDown", i))
  /\ (SettledHandDownRemoved(e) \/ Viol("Settled.HandDown.Removed", i))
  /\ (SettledActive(e) \/ Viol("Settled.Active", i))
  /\ (SettledInstalled(e) \/ Viol("Settled.Installed", i))
  /\ (SettledHealthNow(e) \/ Viol("Settled.Health.Now", i))
  /\ (SettledRevPaused(e) \/ Viol("Settled.Rev.Paused", i))
  /\ (SettledRevDeleted(e) \/ Viol("Settled.Rev.Deleted", i))
  /\ (SettledGoneCache(e) \/ Viol("Settled.Gone.CacheEntry", i))
  /\ (SettledGoneLock(e) \/ Viol("Settled.Gone.LockEntry", i))
  /\ (SettledRevFinalizer(e) \/ Viol("Settled.Rev.Finalizer", i))
  /\ (SettledRevHealth(e) \/ Viol("Settled.Rev.Health", i))
  /\ (SettledRevHealthUndefined(e) \/ Viol("Settled.Rev.Health.UndefinedState", i))
  /\ (SettledRevLock(e) \/ Viol("Settled.Rev.Lock", i))
  /\ (e.ev = "reset" \/ i = 1 \/
        LET p == Trace[i - 1] IN
        /\ (PkgSpecUntouched(p, e) \/ Viol("Pkg.SpecUntouched", i))
        /\ (RevStatusOnlyStatus(p, e) \/ Viol("Rev.StatusOnlyStatus", i))
        /\ (RevSpecUntouched(p, e) \/ Viol("Rev.SpecUntouched", i))
        /\ (DeactivateOnly(p, e) \/ Viol("Mgr.Deactivate.Only", i))
        /\ (ForeignUntouched(p, e) \/ Viol("Mgr.Foreign.Untouched", i))
        /\ (ApplyKeepsRest(p, e) \/ Viol("Mgr.Apply.KeepsRest", i))
        /\ (StatusCurrentOnlyFinal(p, e) \/ Viol("Mgr.Status.CurrentOnlyFinal", i))
        /\ (HealthTrueOnlyIfListedTrue(p, e) \/ Viol("Mgr.Health.TrueOnlyIfListedTrue", i))
        /\ (HealthOnlyFinal(p, e) \/ Viol("Mgr.Health.OnlyFinal", i))
        /\ (DeletingCacheFirst(p, e) \/ Viol("Rev.Deleting.CacheFirst", i))
        /\ (DeletingLockStage(p, e) \/ Viol("Rev.Deleting.LockStage", i))
        /\ (DeletingLockFirst(p, e) \/ Viol("Rev.Deleting.LockFirst", i))
        /\ (DeletingLockFirstCacheMiss(p, e) \/ Viol("Rev.Deleting.LockFirst.CacheMiss", i))
        /\ (DeletingOnlyFinalizer(p, e) \/ Viol("Rev.Deleting.OnlyFinalizer", i))
        /\ (FinalizerKept(p, e) \/ Viol("Rev.Finalizer.Kept", i))
        /\ (InactiveNoLockEntry(p, e) \/ Viol("Rev.Inactive.NoLockEntry", i))
        /\ (LockOnlyOwnEntry(p, e) \/ Viol("Rev.Lock.OnlyOwnEntry", i))
        /\ (RefsAfterEstablish(p, e) \/ Viol("Rev.Refs.AfterEstablish", i))
        /\ (MetaAdds(p, e) \/ Viol("Rev.Meta.Adds", i)))

Init == l = 0
Next == /\ l < Len(Trace) /\ l' = l + 1 /\ Check(l')
        /\ (l' < Len(Trace) \/ PrintT("DONE|" \o ToString(l')))
Spec == Init /\ [][Next]_l
=============================================================================
