#!/usr/bin/env python3
"""Anti-vacuity self test of the C10 check (run by hand: python3 checks/c10_selftest.py).

1. sanity mutants of the real code, applied ONLY through `go build -overlay` (nothing is
   written to /repo): each must make MonPatches report the expected formulas; two "repair"
   mutants (the candidate fixes of D1 and of the fractional clamp) must make the
   corresponding formula fall silent;
2. seeded corruption of one recorded field of a real trace: MonPatches must reject that line.
Scratch: /verif/.work/C10-selftest."""
import json
import os
import subprocess
import sys

sys.path.insert(0, os.path.dirname(os.path.dirname(os.path.abspath(__file__))))
import vlib  # noqa: E402
from checks import c10  # noqa: E402,F401

COMP = "internal/controller/apiextensions/composite/"
MUTANTS = [
    # (name, file in /repo, old text, new text, formulas that must fire / rise, formulas that must fall silent)
    ("optional-missing-is-an-error", COMP + "composition_patches.go",
     "\tcase *p.FromFieldPath == v1.FromFieldPathPolicyOptional:\n\t\treturn fieldpath.IsNotFound(err)",
     "\tcase *p.FromFieldPath == v1.FromFieldPathPolicyOptional:\n\t\treturn false && fieldpath.IsNotFound(err)",
     ["OptionalNoop", "HalfRendered.OthersApplied"], []),
    ("required-missing-is-a-noop", COMP + "composition_patches.go",
     "\tdefault:\n\t\treturn false\n\t}\n}\n\n// Combine calls the appropriate combiner.",
     "\tdefault:\n\t\treturn fieldpath.IsNotFound(err)\n\t}\n}\n\n// Combine calls the appropriate combiner.",
     ["RequiredErr", "HalfRendered.NoWrite"], []),
    ("apply-unrendered-resources", COMP + "composition_pt.go",
     "\t\tif rendered {\n\t\t\tcds[i] = r\n\t\t}",
     "\t\t_ = rendered\n\t\tcds[i] = r",
     ["HalfRendered.NoWrite", "HalfRendered.Untouched"], []),
    ("drop-reference-of-unrendered", COMP + "composition_pt.go",
     "\t\trefs[i] = *meta.ReferenceTo(r, r.GetObjectKind().GroupVersionKind())",
     "\t\tif rendered {\n\t\t\trefs[i] = *meta.ReferenceTo(r, r.GetObjectKind().GroupVersionKind())\n\t\t}",
     ["HalfRendered.RefKept"], []),
    ("render-failure-is-terminal", COMP + "composition_pt.go",
     "\t\tif err := RenderFromCompositePatches(r, xr, ta.Template.Patches); err != nil {\n",
     "\t\tif err := RenderFromCompositePatches(r, xr, ta.Template.Patches); err != nil {\n\t\t\treturn CompositionResult{}, err\n",
     ["HalfRendered.OthersApplied"], []),
    ("convert-bool-to-string-negated", COMP + "composition_transforms.go",
     "\t\treturn strconv.FormatBool(b), nil",
     "\t\treturn strconv.FormatBool(!b), nil",
     ["ConvertLaw.BoolString", "ConvertLaw.RoundTrip"], []),
    ("convert-string-to-int-base16", COMP + "composition_transforms.go",
     "\t\treturn strconv.ParseInt(s, 10, 64)",
     "\t\treturn strconv.ParseInt(s, 16, 64)",
     ["ConvertLaw.StringInt"], []),
    ("only-first-transform-applied", COMP + "composition_patches.go",
     "\tfor i, t := range c.Transforms {\n",
     "\tfor i, t := range c.Transforms {\n\t\tif i > 0 {\n\t\t\tbreak\n\t\t}\n",
     ["Meaning.Chain", "ConvertLaw.RoundTrip", "Patch.Transforms"], []),
    ("multiply-float-truncated", COMP + "composition_transforms.go",
     "\t\treturn i * float64(*t.Multiply), nil",
     "\t\treturn int64(i) * *t.Multiply, nil",
     ["Meaning.Math"], []),
    ("match-last-pattern-wins", COMP + "composition_transforms.go",
     "\t\t\tif err := unmarshalJSON(p.Result, &output); err != nil {\n\t\t\t\treturn nil, errors.Wrapf(err, errFmtMatchParseResult, i)\n\t\t\t}\n\t\t\treturn output, nil",
     "\t\t\tif err := unmarshalJSON(p.Result, &output); err != nil {\n\t\t\t\treturn nil, errors.Wrapf(err, errFmtMatchParseResult, i)\n\t\t\t}\n\t\t\tif i == len(t.Patterns)-1 {\n\t\t\t\treturn output, nil\n\t\t\t}",
     ["Meaning.Match"], []),
    ("trim-prefix-trims-suffix", COMP + "composition_transforms.go",
     "\t\treturn strings.TrimPrefix(str, trim)",
     "\t\treturn strings.TrimSuffix(str, trim)",
     ["Meaning.String"], []),
    ("patch-touches-its-source", COMP + "composition_patches.go",
     "\tin, err := fieldpath.Pave(fromMap).GetValue(*p.FromFieldPath)\n",
     "\tin, err := fieldpath.Pave(fromMap).GetValue(*p.FromFieldPath)\n\tfromMap[\"touched\"] = true\n",
     ["SourcePure"], []),
    ("to-field-path-not-defaulted", COMP + "composition_patches.go",
     "\tif p.ToFieldPath == nil {\n\t\tp.ToFieldPath = p.FromFieldPath\n\t}\n\n\tfromMap",
     "\tif p.ToFieldPath == nil {\n\t\treturn nil\n\t}\n\n\tfromMap",
     ["Patch.Copies"], []),
    ("render-from-applies-every-type", COMP + "composition_render.go",
     "\t\tif err := Apply(p[i], xr, cd, patchTypesFromXR()...); err != nil {",
     "\t\tif err := Apply(p[i], xr, cd); err != nil {",
     ["Render.Filter"], []),
    ("wildcard-patches-first-match-only", COMP + "composition_patches.go",
     "\tfor _, field := range arrayFieldPaths {\n\t\tif err := paved.MergeValue(field, value, mo); err != nil {\n\t\t\treturn err\n\t\t}\n\t}",
     "\tfor _, field := range arrayFieldPaths[:1] {\n\t\tif err := paved.MergeValue(field, value, mo); err != nil {\n\t\t\treturn err\n\t\t}\n\t}",
     ["Patch.Copies"], []),
    ("merge-options-ignored", COMP + "composition_patches.go",
     "\treturn patchFieldValueToObject(*p.ToFieldPath, out, to, mo)\n}",
     "\treturn patchFieldValueToObject(*p.ToFieldPath, out, to, nil)\n}",
     ["MergeLaw.Override", "MergeLaw.KeepMapValues"], []),
    ("upper-case-alternates", COMP + "composition_transforms.go",
     "\t\treturn strings.ToUpper(str), nil",
     "\t\tverifCalls++\n\t\tif verifCalls%2 == 0 {\n\t\t\treturn strings.ToUpper(str) + \"!\", nil\n\t\t}\n\t\treturn strings.ToUpper(str), nil",
     ["Determinism"], []),
    ("metadata-without-controller", COMP + "composition_render.go",
     "\treturn errors.Wrap(meta.AddControllerReference(cd, or), errSetControllerRef)",
     "\t_ = or\n\treturn nil",
     ["Metadata.Rendered", "Metadata.ForeignController"], []),
    ("metadata-label-not-required", COMP + "composition_render.go",
     "\tif xr.GetLabels()[xcrd.LabelKeyNamePrefixForComposed] == \"\" {\n\t\treturn errors.Errorf(errFmtNamePrefixLabel, xcrd.LabelKeyNamePrefixForComposed)\n\t}",
     "",
     ["Metadata.MissingLabel", "HalfRendered.NoWrite"], []),
    ("patchset-order-reversed", COMP + "composition_patches.go",
     "\t\t\tpo = append(po, ps...)",
     "\t\t\tpo = append(append([]v1.Patch{}, ps...), po...)",
     ["PatchSet.Inline"], []),
    ("combine-ignores-format", COMP + "composition_patches.go",
     "\treturn fmt.Sprintf(format, vars...), nil",
     "\treturn fmt.Sprint(vars...), nil",
     ["Combine.Format"], []),
    # candidate repairs: the finding's formula must fall silent (the check passes because the behaviour changed)
    ("REPAIR-D1-negative-group-guard", COMP + "composition_transforms.go",
     "\tif len(groups) == 0 || g >= len(groups) {",
     "\tif len(groups) == 0 || g < 0 || g >= len(groups) {",
     [], ["Total.RegexpNegativeGroup"]),
    ("REPAIR-clamp-compares-floats", COMP + "composition_transforms.go",
     "\tcase float64:\n\t\tin = int64(i)\n",
     "\tcase float64:\n\t\tif t.GetType() == v1.MathTransformTypeClampMin && t.ClampMin != nil && i < float64(*t.ClampMin) {\n\t\t\treturn *t.ClampMin, nil\n\t\t}\n"
     "\t\tif t.GetType() == v1.MathTransformTypeClampMax && t.ClampMax != nil && i > float64(*t.ClampMax) {\n\t\t\treturn *t.ClampMax, nil\n\t\t}\n\t\treturn input, nil\n",
     [], ["MathLaw.ClampFractional"]),
]
EXTRA_DECL = {"upper-case-alternates": "\nvar verifCalls int\n"}


def build_mutant(ctx, name, rel, old, new):
    src = open(os.path.join("/repo", rel)).read()
    if src.count(old) != 1:
        raise SystemExit("mutant %s: anchor text occurs %d times in %s" % (name, src.count(old), rel))
    d = os.path.join(ctx.work, "mutants", name)
    os.makedirs(d, exist_ok=True)
    mp = os.path.join(d, os.path.basename(rel))
    with open(mp, "w") as f:
        f.write(src.replace(old, new) + EXTRA_DECL.get(name, ""))
    ov = os.path.join(d, "overlay.json")
    with open(ov, "w") as f:
        json.dump({"Replace": {os.path.join("/repo", rel): mp}}, f)
    out = os.path.join(d, "patches")
    e = dict(os.environ)
    e.update(vlib.GOENV)
    p = subprocess.run(["go", "build", "-overlay", ov, "-o", out, "./drivers/patches"], cwd=vlib.HARNESS, env=e,
                       stdout=subprocess.PIPE, stderr=subprocess.STDOUT, text=True)
    if p.returncode != 0:
        raise SystemExit("mutant %s does not build:\n%s" % (name, p.stdout[-3000:]))
    return out


def judge(ctx, binp, sp, tag):
    trace = os.path.join(ctx.work, "trace_%s.ndjson" % tag)
    ctx.run([binp, "-scenarios", sp, "-trace", trace, "-summary", os.path.join(ctx.work, "sum_%s.json" % tag)])
    viols, _ = ctx.monitor("MonPatches", trace)
    by = {}
    for f, _, _ in viols:
        by[f] = by.get(f, 0) + 1
    return by, trace


def main():
    only = sys.argv[1:]
    ctx = vlib.Ctx("C10-selftest", "quick", 1)
    mc = ctx.model_check("MCPatches", "MCPatches_quick.cfg", workers=8, timeout=120)
    scs = [{"id": "C10-%07d" % i, "input": v} for i, v in ctx.sample_lines(mc["emitted_file"], 10 ** 9, mc["emitted"])]
    sp = ctx.write_scenarios(scs)
    ok = True
    base, trace = judge(ctx, ctx.go_build("./drivers/patches"), sp, "base")
    print("unchanged tree:", base)
    for name, rel, old, new, expect, silent in MUTANTS:
        if only and not any(o in name for o in only):
            continue
        got, _ = judge(ctx, build_mutant(ctx, name, rel, old, new), sp, name)
        raised = {f: n for f, n in got.items() if n > base.get(f, 0)}
        hit = all(f in raised for f in expect) and all(f not in got for f in silent)
        ok &= hit
        verdict = ("SILENCED " + str(silent) if silent else "DETECTED") if hit else "MISSED (expected %s, silent %s)" % (expect, silent)
        print("mutant %-40s %s  new/raised: %s" % (name, verdict, raised))
    # seeded corruption of recorded fields
    lines = open(trace).read().splitlines()

    def is_compose(e, kind):
        return e["sub"] == "compose" and e["input"]["kind"] == kind and e["input"]["phase"] == "update"

    corruptions = [
        ("transform output changed", lambda e: e["fam"] == "transform" and e["out"]["outcome"] == "ok" and e["out"]["v"]["t"] == "int" and e["out"]["v"]["ex"]
         and len(e["input"]["chain"]) == 1 and e["input"]["chain"][0]["ty"] == "convert" and e["input"]["val"]["t"] == "string",
         lambda e: (e["out"]["v"].update(i=e["out"]["v"]["i"] + 1), e["out2"]["v"].update(i=e["out2"]["v"]["i"] + 1)), "ConvertLaw.StringInt"),
        ("second run differs", lambda e: e["fam"] == "transform" and e["out"]["outcome"] == "ok",
         lambda e: e["out2"].update(outcome="error"), "Determinism"),
        ("panic recorded", lambda e: e["fam"] == "patch" and e["out"]["outcome"] == "ok",
         lambda e: (e["out"].update(outcome="panic"), e["out2"].update(outcome="panic")), "Total.Patch"),
        ("source digest changed", lambda e: e["fam"] == "patch" and e["out"]["outcome"] == "ok",
         lambda e: (e["out"].update(srcAfter="0"), e["out2"].update(srcAfter="0")), "SourcePure"),
        ("optional-missing patch reports an error", lambda e: e["fam"] == "patch" and e["input"]["p"]["from"]["k"] == "absent" and e["input"]["p"]["pol"] == "Optional"
         and e["input"]["p"]["ptype"] == "FromCompositeFieldPath",
         lambda e: (e["out"].update(outcome="error"), e["out2"].update(outcome="error")), "OptionalNoop"),
        ("required-missing patch reports success", lambda e: e["fam"] == "patch" and e["input"]["p"]["from"]["k"] == "absent" and e["input"]["p"]["pol"] == "Required"
         and e["input"]["p"]["ptype"] == "FromCompositeFieldPath",
         lambda e: (e["out"].update(outcome="ok"), e["out2"].update(outcome="ok")), "RequiredErr"),
        ("write of the unrendered template logged", lambda e: is_compose(e, "required"),
         lambda e: [o["writes"].append({"tpl": "t%d" % e["input"]["fail"], "verb": "patch-merge", "applied": True, "noop": False, "outcome": "ok", "obj": "o1"})
                    for o in (e["out"], e["out2"])], "HalfRendered.NoWrite"),
        ("another template not applied", lambda e: is_compose(e, "required") and e["input"]["fail"] == 1,
         lambda e: [o.update(writes=[w for w in o["writes"] if w["tpl"] != "t2"]) for o in (e["out"], e["out2"])], "HalfRendered.OthersApplied"),
        ("reference dropped", lambda e: is_compose(e, "required"),
         lambda e: [o["refsAfter"].__setitem__(e["input"]["fail"] - 1, "") for o in (e["out"], e["out2"])], "HalfRendered.RefKept"),
    ]
    for what, pick, mutate, formula in corruptions:
        idx = next(i for i, ln in enumerate(lines) if pick(json.loads(ln)))
        e = json.loads(lines[idx])
        mutate(e)
        cp = os.path.join(ctx.work, "corrupt.ndjson")
        with open(cp, "w") as f:
            f.write("\n".join(lines[:idx] + [json.dumps(e)] + lines[idx + 1:]) + "\n")
        viols, _ = ctx.monitor("MonPatches", cp)
        hit = any(f == formula and ln == idx + 1 for f, ln, _ in viols)
        ok &= hit
        print("corruption %-45s line %d: %s" % (what, idx + 1, "REJECTED by " + formula if hit else "NOT NOTICED"))
    print("selftest", "PASSED" if ok else "FAILED")
    return 0 if ok else 1


if __name__ == "__main__":
    sys.exit(main())
