SPECIFICATION Spec
CONSTANTS
  Inits <- InitsMixed
  EnvKinds = {"ver", "s"}
  FaultKinds = {}
  MaxEnv = 2
  MaxFaults = 0
  MaxRecs = 3
  Interleave = TRUE
  MidEnv = TRUE
  WaitEstablished = TRUE
  FixTypeRef = FALSE
  FixWatches = FALSE
VIEW view
ACTION_CONSTRAINT EmitEnd
CHECK_DEADLOCK FALSE
INVARIANTS Safe
PROPERTIES ForeignFrozen XrdSpecKept
