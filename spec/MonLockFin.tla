----------------------------- MODULE MonLockFin -----------------------------
EXTENDS Integers, Sequences, TLC, Json, IOUtils
Trace == ndJsonDeserialize(IOEnv.VERIF_TRACE)
VARIABLE l
\* the revision's finalizer disappears (or the revision itself) only when the Lock no longer lists the revision
LockBeforeFin(p, e) == (p.post.fin /\ ~e.post.fin) => ~p.post.inLock
Viol(name, i) == PrintT("VIOL|" \o name \o "|" \o ToString(i) \o "|" \o Trace[i].scenario)
Check(i) == LET e == Trace[i] IN
  e.ev = "reset" \/ i = 1 \/ (LockBeforeFin(Trace[i - 1], e) \/ Viol("LockBeforeFin", i))
Init == l = 0
Next == /\ l < Len(Trace) /\ l' = l + 1 /\ Check(l')
        /\ (l' < Len(Trace) \/ PrintT("DONE|" \o ToString(l')))
Spec == Init /\ [][Next]_l
=============================================================================
