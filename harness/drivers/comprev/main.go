// Driver for spec/CompRev.tla: replays TLC behaviours against the real
// composition revision reconciler (internal/controller/apiextensions/composition)
// and the real APIRevisionFetcher (internal/controller/apiextensions/composite)
// running on simapi, and records one trace event per API call of the
// reconciler (and one per XR Fetch) with the projected state. The driver only
// projects state; every property formula lives in spec/MonCompRev.tla.
package main

import (
	"context"
	"crypto/sha256"
	"encoding/json"
	"flag"
	"fmt"
	"os"
	"reflect"
	"sort"
	"strconv"

	corev1 "k8s.io/api/core/v1"
	metav1 "k8s.io/apimachinery/pkg/apis/meta/v1"
	"k8s.io/apimachinery/pkg/apis/meta/v1/unstructured"
	"k8s.io/apimachinery/pkg/runtime"
	"k8s.io/apimachinery/pkg/runtime/schema"
	"k8s.io/apimachinery/pkg/types"
	"sigs.k8s.io/controller-runtime/pkg/reconcile"
	"sigs.k8s.io/yaml"

	xpv1 "github.com/crossplane/crossplane-runtime/apis/common/v1"
	"github.com/crossplane/crossplane-runtime/pkg/resource"
	ucomposite "github.com/crossplane/crossplane-runtime/pkg/resource/unstructured/composite"

	v1 "github.com/crossplane/crossplane/apis/apiextensions/v1"
	"github.com/crossplane/crossplane/internal/controller/apiextensions/composite"
	"github.com/crossplane/crossplane/internal/controller/apiextensions/composition"
	"github.com/crossplane/crossplane/zzverif/fakes"
	"github.com/crossplane/crossplane/zzverif/replay"
	"github.com/crossplane/crossplane/zzverif/scen"
	"github.com/crossplane/crossplane/zzverif/simapi"
	"github.com/crossplane/crossplane/zzverif/trace"
)

const (
	compName = "comp"
	xrName   = "xr"
	selLabel = "channel"
)

var (
	compKey = simapi.Key{Group: "apiextensions.crossplane.io", Kind: "Composition", Name: compName}
	revGK   = schema.GroupKind{Group: "apiextensions.crossplane.io", Kind: "CompositionRevision"}
	xrGVK   = schema.GroupVersionKind{Group: "example.org", Version: "v1", Kind: "XThing"}
	xrKey   = simapi.Key{Group: "example.org", Kind: "XThing", Name: xrName}
)

// ---------------------------------------------------------------- contents

// content is one concrete (labels, annotations, spec) triple of the Composition.
type content struct {
	id      string
	labels  map[string]string
	annots  map[string]string
	spec    v1.CompositionSpec
	hash    string // Composition.Hash() of the triple
	revName string // the name NewCompositionRevision derives from it
	key     string // canonical JSON of the triple
	specMap map[string]any
}

type table struct {
	seq    []string
	byID   map[string]*content
	byName map[string]*content // revision name -> content
	byHash map[string]*content // hash label value -> content
	byKey  map[string]*content
}

var tables = map[string]*table{}

func tripleKey(l, a map[string]string, s any) string {
	if len(l) == 0 {
		l = nil
	}
	if len(a) == 0 {
		a = nil
	}
	b, _ := json.Marshal(map[string]any{"l": l, "a": a, "s": s})
	return string(b)
}

func jsonMap(v any) map[string]any {
	b, _ := json.Marshal(v)
	m := map[string]any{}
	_ = json.Unmarshal(b, &m)
	return m
}

func buildComp(c *content) *v1.Composition {
	return &v1.Composition{ObjectMeta: metav1.ObjectMeta{Name: compName, Labels: c.labels, Annotations: c.annots}, Spec: *c.spec.DeepCopy()}
}

// refHash is the content hash as every released version computes it and as the revisions in existing clusters carry it in
// their hash label: sha256 over the YAML of the Composition's labels, annotations and spec, in that order. It is written
// down here, not taken from the code under test: the label is persisted state, and a controller that computes another hash
// for the same content no longer recognises the revisions it finds (added after the seeded change C12-m10 was missed - the
// table used to be filled with Composition.Hash() itself, so a changed hash function agreed with itself).
func refHash(c *content) string {
	h := sha256.New()
	y, _ := yaml.Marshal(c.labels)
	a, _ := yaml.Marshal(c.annots)
	sp, _ := yaml.Marshal(c.spec)
	_, _ = h.Write(append(append(y, a...), sp...))
	return fmt.Sprintf("%x", h.Sum(nil))
}

// tableFor builds the concrete contents for the abstract ones of a scenario.
// Revision names are <composition>-<hash[:7]> and a List returns them sorted
// by name, so the free nonces are searched until the names sort in the order
// the model assumed (cseq).
func tableFor(init map[string]any) *table {
	sig, _ := json.Marshal([]any{init["cseq"], init["shape"]})
	if t, ok := tables[string(sig)]; ok {
		return t
	}
	var seq []string
	for _, c := range init["cseq"].([]any) {
		seq = append(seq, c.(string))
	}
	shape := init["shape"].(map[string]any)
	mode := v1.CompositionModePipeline
	for n := 0; ; n++ {
		t := &table{seq: seq, byID: map[string]*content{}, byName: map[string]*content{}, byHash: map[string]*content{}, byKey: map[string]*content{}}
		ok := true
		prev := ""
		for _, id := range seq {
			sh := shape[id].(map[string]any)
			c := &content{id: id}
			c.spec = v1.CompositionSpec{
				CompositeTypeRef: v1.TypeReference{APIVersion: xrGVK.GroupVersion().String(), Kind: xrGVK.Kind},
				Mode:             &mode,
				Pipeline:         []v1.PipelineStep{{Step: "run", FunctionRef: v1.FunctionReference{Name: fmt.Sprintf("fn-%s-%d", sh["spec"], n)}}},
			}
			if l := sh["lab"].(string); l != "none" {
				c.labels = map[string]string{selLabel: l, "verif.example.org/nonce": strconv.Itoa(n)}
			}
			if a := sh["ann"].(string); a != "none" {
				// (an annotated Composition is one that was written with `kubectl apply`: it also carries kubectl's own annotation)
				c.annots = map[string]string{"verif.example.org/note": fmt.Sprintf("%s-%d", a, n),
					"kubectl.kubernetes.io/last-applied-configuration": fmt.Sprintf(`{"note":"%s-%d"}`, a, n)}
			}
			c.hash = refHash(c)
			c.revName = compName + "-" + c.hash[:7]
			c.key = tripleKey(c.labels, c.annots, c.spec)
			c.specMap = jsonMap(c.spec)
			if c.revName <= prev {
				ok = false
				break
			}
			prev = c.revName
			t.byID[id], t.byName[c.revName], t.byHash[c.hash[:63]], t.byKey[c.key] = c, c, c, c
		}
		if ok && len(t.byKey) == len(seq) {
			tables[string(sig)] = t
			return t
		}
	}
}

// ------------------------------------------------------------------- world

type world struct {
	s       *simapi.Server
	c       *simapi.Client // the revision controller's client
	xc      *simapi.Client // the XR controller's client
	rec     reconcile.Reconciler
	fetcher *composite.APIRevisionFetcher
	tab     *table
	tw      *trace.Writer
	scenID  string
	compUID types.UID

	al         *replay.Aligner
	recNo      int
	seen       map[string]any
	touched    map[string]bool // revisions this reconcile already sent an Update for
	pending    string          // abstract key of the call being served (set by the interceptor)
	quiet      bool
	stripped   bool // environment fact: a backup/restore stripped the owner references earlier in this run
	fetches    int
	hidePinned bool // reads of CompositionRevisions by the XR's client answer NotFound
	xcalls     int
}

func (w *world) contentOfRevName(n string) string {
	if c, ok := w.tab.byName[n]; ok {
		return c.id
	}
	return "unknown:" + n
}

func short(v any) string {
	b, _ := json.Marshal(v)
	h := sha256.Sum256(b)
	return fmt.Sprintf("%x", h[:6])
}

// post is the projection of the store: the abstract state CompRev.tla talks about.
func (w *world) post() map[string]any {
	comp := map[string]any{"c": "none"}
	if u := w.s.Peek(compKey); u != nil {
		t := &v1.Composition{}
		if err := runtime.DefaultUnstructuredConverter.FromUnstructured(u.Object, t); err == nil {
			comp["c"] = "unknown"
			if c, ok := w.tab.byKey[tripleKey(t.Labels, t.Annotations, t.Spec)]; ok {
				comp["c"] = c.id
			}
		}
	}
	revs := []any{}
	for _, u := range w.s.All(revGK) {
		r := &v1.CompositionRevision{}
		if err := runtime.DefaultUnstructuredConverter.FromUnstructured(u.Object, r); err != nil {
			panic(err)
		}
		// the content a revision claims to capture: its hash label
		hl := r.Labels[v1.LabelCompositionHash]
		cid, specOk, labOk, nameOk := "unknown:"+r.Name, false, false, false
		if c, ok := w.tab.byHash[hl]; ok {
			cid = c.id
			nameOk = r.Name == c.revName
			sm := jsonMap(r.Spec)
			delete(sm, "revision")
			specOk = reflect.DeepEqual(sm, c.specMap)
			want := map[string]string{v1.LabelCompositionName: compName, v1.LabelCompositionHash: c.hash[:63]}
			for k, v := range c.labels {
				want[k] = v
			}
			labOk = reflect.DeepEqual(want, r.Labels)
		}
		ctrl := "none"
		if o := metav1.GetControllerOf(r); o != nil {
			ctrl = "foreign"
			if o.UID == w.compUID {
				ctrl = "comp"
			}
		}
		lab := "none"
		if v, ok := r.Labels[selLabel]; ok {
			lab = v
		}
		sm := jsonMap(r.Spec)
		delete(sm, "revision")
		revs = append(revs, map[string]any{"name": r.Name, "c": cid, "known": nameOk, "num": r.Spec.Revision, "ctrl": ctrl,
			"specOk": specOk, "labOk": labOk, "lab": lab, "dg": short([]any{sm, r.Labels, r.Annotations})})
	}
	xr := map[string]any{"pol": "none", "sel": "none", "ref": "none"}
	if u := w.s.Peek(xrKey); u != nil {
		x := ucomposite.Unstructured{Unstructured: *u}
		if p := x.GetCompositionUpdatePolicy(); p != nil {
			xr["pol"] = string(*p)
		}
		if s := x.GetCompositionRevisionSelector(); s != nil {
			if v, ok := s.MatchLabels[selLabel]; ok {
				xr["sel"] = v
			}
		}
		if r := x.GetCompositionRevisionReference(); r != nil {
			xr["ref"] = w.contentOfRevName(r.Name)
		}
	}
	return map[string]any{"comp": comp, "revs": revs, "xr": xr}
}

func noFetch() map[string]any {
	return map[string]any{"pol": "none", "sel": "none", "pinned": "none", "got": "none", "err": false, "ref": "none", "hidden": false}
}

func (w *world) seenCopy() map[string]any {
	out := map[string]any{"cur": "none", "listed": []any{}, "unowned": false}
	for k, v := range w.seen {
		out[k] = v
	}
	return out
}

func (w *world) emit(ev string, m map[string]any) {
	base := map[string]any{"ev": ev, "scenario": w.scenID, "actor": "revisions", "rec": w.recNo,
		"verb": "", "kind": "", "name": "", "abs": "", "outcome": "", "injected": "", "applied": false, "target": "none",
		"result": "", "quiet": false, "faulty": false, "stripped": w.stripped, "seen": w.seenCopy(), "fetch": noFetch(), "post": w.post()}
	for k, v := range m {
		base[k] = v
	}
	w.tw.Emit(base)
}

// classify maps a call of the revision controller to the model's action alphabet.
func (w *world) classify(verb string, k simapi.Key, peek bool) string {
	switch k.Kind {
	case "Composition":
		return verb + ":comp"
	case "CompositionRevision":
		switch verb {
		case "list":
			return "list:rev"
		case "create":
			return "create:" + w.contentOfRevName(k.Name)
		case "update":
			// the first Update of a revision that was listed without the Composition as its
			// controller is the re-adoption; any other Update is the renumbering
			c := w.contentOfRevName(k.Name)
			adopt := false
			if l, ok := w.seen["listed"].([]any); ok {
				for _, r := range l {
					rm := r.(map[string]any)
					if rm["c"] == c && rm["ctrl"] != "comp" && !w.touched[c] {
						adopt = true
					}
				}
			}
			if !peek {
				w.touched[c] = true
			}
			if adopt {
				return "adopt:" + c
			}
			return "renumber:" + c
		}
		return verb + ":" + w.contentOfRevName(k.Name)
	}
	return "other:" + k.Kind
}

func (w *world) onEvent(e *simapi.Event) {
	if e.Actor != w.c.Actor {
		w.xcalls++
		return
	}
	if e.Outcome == "dropped" && e.Injected == "" {
		return
	}
	abs := w.pending
	w.pending = ""
	if abs == "" {
		abs = w.classify(e.Verb, simapi.Key{Group: e.Group, Kind: e.Kind, Name: e.Name}, true)
	}
	p := w.post()
	if abs == "get:comp" && e.Outcome == "ok" {
		w.seen["cur"] = p["comp"].(map[string]any)["c"]
	}
	if abs == "list:rev" && e.Outcome == "ok" {
		l := []any{}
		un := false
		for _, r := range p["revs"].([]any) {
			rm := r.(map[string]any)
			l = append(l, map[string]any{"c": rm["c"], "num": rm["num"], "ctrl": rm["ctrl"]})
			if rm["ctrl"] != "comp" {
				un = true
			}
		}
		w.seen["listed"], w.seen["unowned"] = l, un
	}
	target, kind := "none", "other"
	switch e.Kind {
	case "Composition":
		kind = "comp"
	case "CompositionRevision":
		kind = "rev"
		if e.Verb != "list" {
			target = w.contentOfRevName(e.Name)
		}
	}
	w.emit("call", map[string]any{"verb": e.Verb, "kind": kind, "name": e.Name, "abs": abs, "outcome": e.Outcome,
		"injected": e.Injected, "applied": e.Applied && !e.DryRun, "target": target})
}

func (w *world) setContent(u *unstructured.Unstructured, c *content) {
	cu, err := runtime.DefaultUnstructuredConverter.ToUnstructured(buildComp(c))
	if err != nil {
		panic(err)
	}
	u.Object["spec"] = cu["spec"]
	u.SetLabels(c.labels)
	u.SetAnnotations(c.annots)
}

func (w *world) env(e replay.Entry) {
	switch e.K {
	case "edit":
		w.quiet = false
		w.s.Mutate(compKey, func(u *unstructured.Unstructured) { w.setContent(u, w.tab.byID[e.O]) })
		w.emit("env", map[string]any{"verb": "edit", "name": e.O})
	case "strip":
		w.quiet = false
		for _, r := range w.s.All(revGK) {
			w.s.Mutate(simapi.KeyOf(r), func(u *unstructured.Unstructured) { u.SetOwnerReferences(nil) })
		}
		w.stripped = true
		w.emit("env", map[string]any{"verb": "strip"})
	case "fetch":
		w.fetch(e.O, e.F)
	default:
		panic("unknown env step " + e.K)
	}
}

// fetch reconciles the revision selection of an XR that has the given update
// policy and revision selector: the real APIRevisionFetcher.Fetch.
func (w *world) fetch(pol, sel string) {
	w.s.Mutate(xrKey, func(u *unstructured.Unstructured) {
		x := ucomposite.Unstructured{Unstructured: *u}
		p := xpv1.UpdatePolicy(pol)
		x.SetCompositionUpdatePolicy(&p)
		if sel == "none" {
			unstructured.RemoveNestedField(x.Object, "spec", "compositionRevisionSelector")
		} else {
			x.SetCompositionRevisionSelector(&metav1.LabelSelector{MatchLabels: map[string]string{selLabel: sel}})
		}
		u.Object = x.Object
	})
	x := &ucomposite.Unstructured{Unstructured: *w.s.Peek(xrKey)}
	f := noFetch()
	f["pol"], f["sel"] = pol, sel
	if r := x.GetCompositionRevisionReference(); r != nil {
		f["pinned"] = w.contentOfRevName(r.Name)
	}
	f["hidden"] = w.hidePinned
	w.xc.BeginReconcile()
	rev, err := w.fetcher.Fetch(context.Background(), x)
	switch {
	case err != nil:
		f["got"], f["err"] = "error", true
	case rev == nil:
		f["got"] = "nil"
	default:
		f["got"] = w.contentOfRevName(rev.GetName())
	}
	if r := (&ucomposite.Unstructured{Unstructured: *w.s.Peek(xrKey)}).GetCompositionRevisionReference(); r != nil {
		f["ref"] = w.contentOfRevName(r.Name)
	}
	w.fetches++
	w.emit("fetch", map[string]any{"actor": "xr", "verb": "fetch", "name": pol + "/" + sel, "fetch": f})
}

func newWorld(tw *trace.Writer, id string, init map[string]any) *world {
	sch := runtime.NewScheme()
	_ = v1.AddToScheme(sch)
	_ = corev1.AddToScheme(sch)
	s := simapi.NewServer(sch)
	c := simapi.NewClient(s, "revisions")
	xc := simapi.NewClient(s, "xr")
	s.KeepHistory(simapi.Key{Group: "apiextensions.crossplane.io", Kind: "CompositionRevision"}.GK())
	w := &world{s: s, c: c, xc: xc, tab: tableFor(init), tw: tw, scenID: id, seen: map[string]any{}, touched: map[string]bool{}}
	pu := s.Put(buildComp(w.tab.byID[init["comp"].(string)]))
	w.compUID = pu.GetUID()
	x := ucomposite.New(ucomposite.WithGroupVersionKind(xrGVK))
	x.SetName(xrName)
	x.SetCompositionReference(&corev1.ObjectReference{Name: compName})
	s.Put(x)
	xc.StaleGet = func(k simapi.Key, _ []*unstructured.Unstructured) (*unstructured.Unstructured, bool) {
		return nil, w.hidePinned && k.Kind == "CompositionRevision" // answers NotFound while the revisions are hidden
	}
	w.rec = composition.NewReconciler(&fakes.Manager{Client: c, Sch: sch})
	// the XR reconciler builds its fetcher exactly like this (composite.NewReconciler)
	w.fetcher = composite.NewAPIRevisionFetcher(resource.ClientApplicator{Client: xc, Applicator: resource.NewAPIPatchingApplicator(xc)})
	c.Intercept = func(cl *simapi.Call) simapi.Decision {
		abs := w.classify(cl.Verb, cl.Key, false)
		w.pending = abs
		if w.al == nil {
			return simapi.Proceed
		}
		return w.al.OnCall(abs, cl.Write)
	}
	s.OnEvent = w.onEvent
	return w
}

// sweep: inject at a concrete real call index
type sweep struct {
	rec, idx int
	d        simapi.Decision
}

func (w *world) reconcile(al *replay.Aligner, sw *sweep) (calls int) {
	w.recNo++
	w.al = al
	w.seen = map[string]any{}
	w.touched = map[string]bool{}
	w.quiet = true
	w.c.BeginReconcile()
	if sw != nil && sw.rec == w.recNo {
		inner := w.c.Intercept
		w.c.Intercept = func(cl *simapi.Call) simapi.Decision {
			d := inner(cl)
			if cl.Idx == sw.idx && d == simapi.Proceed {
				al.Injected = sw.d.String()
				if sw.d == simapi.FailConflict && !cl.Write {
					return simapi.FailError
				}
				return sw.d
			}
			return d
		}
		defer func() { w.c.Intercept = inner }()
	}
	w.emit("start", nil)
	res, err := w.rec.Reconcile(context.Background(), reconcile.Request{NamespacedName: types.NamespacedName{Name: compName}})
	calls = w.c.Calls()
	al.Finish()
	r := "ok"
	switch {
	case w.c.Dead():
		r = "crashed"
	case err != nil:
		r = "error"
	case res.Requeue:
		r = "requeue"
	}
	w.emit("end", map[string]any{"result": r, "quiet": w.quiet, "faulty": al.Injected != ""})
	w.al = nil
	return calls
}

type summary struct {
	Scenarios  int            `json:"scenarios"`
	Runs       int            `json:"runs"`
	Reconciles int            `json:"reconciles"`
	Fetches    int            `json:"fetches"`
	XRCalls    int            `json:"xr_calls"`
	Events     int            `json:"events"`
	Drift      int            `json:"drift"`
	DriftRuns  int            `json:"drift_runs"`
	SweepRuns  int            `json:"sweep_runs"`
	Counts     map[string]int `json:"counts"`
	Samples    []any          `json:"samples"`
	DriftByAbs map[string]int `json:"drift_by_abs"`
}

func run(tw *trace.Writer, id string, hist []replay.Entry, variant simapi.Decision, sw *sweep, extra int, sum *summary) []int {
	tw.Boundary()
	w := newWorld(tw, id, hist[0].Raw)
	w.emit("reset", nil)
	blocks, trailing := replay.Split(hist[1:], func(e replay.Entry) bool { return e.Abs() == "get:comp" })
	var calls []int
	drift := 0
	for _, b := range blocks {
		for _, e := range b.Pre {
			w.env(e)
		}
		al := &replay.Aligner{Steps: b.Steps, Variant: variant, Env: w.env}
		calls = append(calls, w.reconcile(al, sw))
		if sw == nil {
			drift += al.Drift
			for _, k := range al.DriftAbs {
				sum.DriftByAbs[k]++
			}
		}
		sum.Reconciles++
	}
	for _, e := range trailing {
		w.env(e)
	}
	for i := 0; i < extra; i++ {
		al := &replay.Aligner{Variant: variant, Env: w.env}
		calls = append(calls, w.reconcile(al, sw))
		sum.Reconciles++
	}
	if extra > 0 {
		// what an XR would select now, under each policy
		w.fetch("Automatic", "none")
		w.fetch("Manual", "none")
		// and a Manual XR whose pinned revision cannot be read right now (a lagging cache, a restore that brings XRs back
		// before revisions): it must keep its reference, not move (added after the seeded change C12-m2 was missed)
		w.hidePinned = true
		w.fetch("Manual", "none")
		w.hidePinned = false
		w.fetch("Manual", "none")
	}
	sum.Runs++
	sum.Fetches += w.fetches
	sum.XRCalls += w.xcalls
	sum.Drift += drift
	if drift > 0 {
		sum.DriftRuns++
	}
	return calls
}

func main() {
	scenarios := flag.String("scenarios", "", "NDJSON file of TLC histories")
	tracePath := flag.String("trace", "", "output trace")
	sumPath := flag.String("summary", "", "output summary JSON")
	variants := flag.String("variants", "rotate", "rotate|all: how a model 'fail' is realised (error, conflict, crashBefore)")
	chunk := flag.Int("chunk", 0, "split the trace into files of about this many events")
	sweepN := flag.Int("sweep", 0, "number of scenarios to sweep over every real call index x outcome")
	_ = flag.Int64("seed", 1, "unused: the driver makes no random choice")
	flag.Parse()

	raws, err := scen.Load(*scenarios)
	if err != nil {
		fmt.Fprintln(os.Stderr, err)
		os.Exit(2)
	}
	tw, err := trace.New(*tracePath, *chunk)
	if err != nil {
		fmt.Fprintln(os.Stderr, err)
		os.Exit(2)
	}
	sum := &summary{DriftByAbs: map[string]int{}}
	fails := []simapi.Decision{simapi.FailError, simapi.FailConflict, simapi.CrashBefore}
	dec := map[string]simapi.Decision{"error": simapi.FailError, "conflict": simapi.FailConflict, "crashBefore": simapi.CrashBefore, "crashAfter": simapi.CrashAfter}
	for i, raw := range raws {
		var sc struct {
			ID      string          `json:"id"`
			Hist    json.RawMessage `json:"hist"`
			Variant string          `json:"variant"`
			Extra   int             `json:"extra"`
			Sweep   *struct {
				Rec     int    `json:"rec"`
				Idx     int    `json:"idx"`
				Outcome string `json:"outcome"`
			} `json:"sweep"`
		}
		if err := json.Unmarshal(raw, &sc); err != nil {
			fmt.Fprintln(os.Stderr, "bad scenario:", err)
			os.Exit(2)
		}
		hist, err := replay.Parse(sc.Hist)
		if err != nil || len(hist) == 0 || hist[0].T != "init" {
			fmt.Fprintln(os.Stderr, "bad scenario history:", err)
			os.Exit(2)
		}
		sum.Scenarios++
		if sc.Variant != "" || sc.Sweep != nil || sc.Extra > 0 {
			// a replay file: run exactly what it says
			v := simapi.FailError
			if sc.Variant != "" {
				v = dec[sc.Variant]
			}
			var sw *sweep
			if sc.Sweep != nil {
				sw = &sweep{rec: sc.Sweep.Rec, idx: sc.Sweep.Idx, d: dec[sc.Sweep.Outcome]}
			}
			run(tw, sc.ID, hist, v, sw, sc.Extra, sum)
			if len(sum.Samples) < 2 {
				sum.Samples = append(sum.Samples, json.RawMessage(raw))
			}
			continue
		}
		hasFail := false
		for _, e := range hist {
			if e.F == "fail" && e.T == "call" {
				hasFail = true
			}
		}
		vs := []simapi.Decision{fails[i%3]}
		if hasFail && *variants == "all" {
			vs = fails
		}
		for _, v := range vs {
			id := sc.ID
			if hasFail {
				id += "/" + v.String()
			}
			calls := run(tw, id, hist, v, nil, 0, sum)
			if i < *sweepN && v == vs[0] {
				// every real call index of every reconcile x every outcome, followed by two fault-free reconciles
				for r, n := range calls {
					for k := 1; k <= n; k++ {
						for _, d := range []simapi.Decision{simapi.FailError, simapi.FailConflict, simapi.CrashBefore, simapi.CrashAfter} {
							run(tw, fmt.Sprintf("%s/sweep-r%d-k%d-%s", sc.ID, r+1, k, d), hist, v, &sweep{rec: r + 1, idx: k, d: d}, 2, sum)
							sum.SweepRuns++
						}
					}
				}
			}
		}
		if len(sum.Samples) < 2 {
			sum.Samples = append(sum.Samples, json.RawMessage(raw))
		}
	}
	sum.Events = tw.Lines
	sum.Counts = tw.Counts
	if err := tw.Close(); err != nil {
		fmt.Fprintln(os.Stderr, err)
		os.Exit(2)
	}
	keys := make([]string, 0, len(sum.Counts))
	for k := range sum.Counts {
		keys = append(keys, k)
	}
	sort.Strings(keys)
	if err := scen.WriteJSON(*sumPath, sum); err != nil {
		fmt.Fprintln(os.Stderr, err)
		os.Exit(2)
	}
}
