SPECIFICATION Spec
CONSTANTS
  Syncer = "CSA"
  RvCheck = TRUE
  GenNames <- Gen3
  Starts <- StartsAll
  Fgs <- FgBoth
  FailKinds <- KindsBoth
  Conn = TRUE
  MaxVers = 11
  MaxEnv = 3
  MaxFaults = 1
  MaxRecs = 4
  MaxStale = 2
  MaxCollide = 1
  Rebinds = TRUE
  MidEnv = TRUE
VIEW view
ACTION_CONSTRAINT Emit
CONSTRAINT Bounded
CHECK_DEADLOCK FALSE
INVARIANTS OneXR TypeOK
PROPERTIES RefFirst NoHijack
