------------------------------- MODULE LockFin -------------------------------
(***************************************************************************)
(* C08, package clause: a deleted package revision leaves the dependency   *)
(* Lock before it is finalized (revision reconciler deletion branch +      *)
(* PackageDependencyManager.RemoveSelf).  One action per API call, each    *)
(* may fail (no effect, reconcile ends) or crash after taking effect.      *)
(* The revision may be Active or Inactive when it is deleted (an Inactive  *)
(* one can still be listed: deactivated and deleted in one pass of the     *)
(* package manager, or its deactivating reconcile failed before the Lock): *)
(* the deletion branch is the same for both.                               *)
(***************************************************************************)
EXTENDS Integers, Sequences, TLC
CONSTANTS MaxRecs, MaxFaults, LockStates   \* LockStates \subseteq {"entry", "entryfirst", "entryonly", "noentry", "nolock"}
\* where the revision's entry sits in the Lock: after another package's ("entry"), before it ("entryfirst"), alone ("entryonly") -
\* the position changes nothing (added after the seeded change C08-m7, a removal that skips index 0, was only caught by X07)
Has(l) == l \in {"entry", "entryfirst", "entryonly"}
VARIABLES lock, desired, fin, ex, pc, recs, faults, hist
vars == <<lock, desired, fin, ex, pc, recs, faults, hist>>
view == <<lock, desired, fin, ex, pc, recs, faults>>
H(k, f) == [t |-> "call", k |-> k, o |-> "", f |-> f]
Log(e) == hist' = Append(hist, e)
Init == /\ lock \in LockStates /\ desired \in {"Active", "Inactive"} /\ fin = TRUE /\ ex = TRUE /\ pc = "idle" /\ recs = 0 /\ faults = 0
        /\ hist = << [t |-> "init", k |-> lock, o |-> desired, f |-> ""] >>
End == pc' = "idle" /\ recs' = recs + 1
Ok(k) == Log(H(k, "ok")) /\ UNCHANGED faults
Fail(k) == faults < MaxFaults /\ faults' = faults + 1 /\ Log(H(k, "error")) /\ End
Crash(k) == faults < MaxFaults /\ faults' = faults + 1 /\ Log(H(k, "crashAfter")) /\ End
Get == /\ pc = "idle" /\ ex /\ recs < MaxRecs
       /\ \/ Ok("get:rev") /\ pc' = "getlock" /\ UNCHANGED recs
          \/ Fail("get:rev")
       /\ UNCHANGED <<lock, fin, ex>>
GetLock == /\ pc = "getlock"
           /\ \/ /\ Ok("get:lock") /\ pc' = (IF Has(lock) THEN "updlock" ELSE "remfin") /\ UNCHANGED recs
              \/ Fail("get:lock")
           /\ UNCHANGED <<lock, fin, ex>>
UpdLock == /\ pc = "updlock"
           /\ \/ /\ Ok("update:lock") /\ lock' = "noentry" /\ pc' = "remfin" /\ UNCHANGED recs
              \/ /\ Fail("update:lock") /\ UNCHANGED lock
              \/ /\ Crash("update:lock") /\ lock' = "noentry"
           /\ UNCHANGED <<fin, ex>>
RemFin == /\ pc = "remfin"
          /\ \/ /\ Ok("update:rev") /\ fin' = FALSE /\ ex' = FALSE /\ End
             \/ /\ Fail("update:rev") /\ UNCHANGED <<fin, ex>>
             \/ /\ Crash("update:rev") /\ fin' = FALSE /\ ex' = FALSE
          /\ UNCHANGED lock
Next == (Get \/ GetLock \/ UpdLock \/ RemFin) /\ UNCHANGED desired
Spec == Init /\ [][Next]_vars
LockBeforeFin == [][(fin /\ ~fin') => ~Has(lock)]_vars
=============================================================================
