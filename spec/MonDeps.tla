------------------------------- MODULE MonDeps -------------------------------
(***************************************************************************)
(* Trace monitor for C17.  Every trace line is one input vector together   *)
(* with what the REAL code answered (harness/drivers/deps):                *)
(*   fam "dag"      MapDag / MapUpgradingDag Init, Sort, TraceNode and two *)
(*                  end-to-end runs of the resolver Reconciler             *)
(*   fam "install"  resolver Reconciler, dependency missing                *)
(*   fam "update"   resolver Reconciler with upgrades enabled, dependency  *)
(*                  installed                                              *)
(*   fam "resolve"  PackageDependencyManager.Resolve                       *)
(* The formulas compare the recorded output with the reference semantics   *)
(* of Deps.tla evaluated on the recorded input.  A false formula prints a  *)
(* VIOL line; the monitor never stops early.                               *)
(*                                                                         *)
(* Property text -> formulas                                               *)
(*  "installs the highest semantic-version tag that satisfies the declared *)
(*   constraint"                          Install.MaxSat                   *)
(*  "(or exactly the pinned digest)"      Install.PinnedDigest             *)
(*  "never a version that violates it"    Install.NeverViolates,           *)
(*                                        Update.NeverViolates             *)
(*  "installs nothing when no tag qualifies" Install.NothingWhenNone       *)
(*  "moves an installed dependency to the lowest not-older version ...     *)
(*   that satisfies every parent's constraint"   Update.MinUpgrade         *)
(*  "(or, if downgrades are allowed, the highest older one)"               *)
(*                            Update.MaxDowngrade, Update.NoDowngradeUnlessAllowed *)
(*  "A dependency cycle is always detected"   Dag.SortErrIffCycle.Missed   *)
(*     (and, because a missing dependency must be installed, no cycle is   *)
(*      reported for an acyclic graph)        Dag.SortErrIffCycle.Spurious *)
(*  "and stops further installation"          Dag.CycleStopsInstall        *)
(*  mechanisms named by the property's anchors: implied nodes,             *)
(*  transitive closure                        Dag.Implied, Dag.TraceIsReach*)
(*  "reports its dependencies satisfied only if every direct and           *)
(*   transitive dependency is present in the lock and every direct         *)
(*   dependency's installed version satisfies its constraint"              *)
(*                                            Resolve.Satisfied            *)
(* A panic of the real code is an outcome ("nothing installed"), judged    *)
(* like any other outcome (DESIGN 4 D5).                                   *)
(***************************************************************************)
EXTENDS Deps, TLC, Json, IOUtils

Trace == ndJsonDeserialize(IOEnv.VERIF_TRACE)
VARIABLE l

V100 == [k |-> "sem", maj |-> 1, min |-> 0, pat |-> 0, pre |-> REL, sp |-> 0, d |-> "none"]
NoV  == [k |-> "none", maj |-> 0, min |-> 0, pat |-> 0, pre |-> REL, sp |-> 0, d |-> "none"]

\* installed version of lock member n of input in ("s" is the revision under test)
VerIn(in, n) ==
  IF n = "s" THEN V100
  ELSE IF \E p \in Range(in.lock) : p.n = n THEN (CHOOSE p \in Range(in.lock) : p.n = n).ver
  ELSE NoV

-----------------------------------------------------------------------------
(* fam "dag" *)
DagL(in) == {p.n : p \in Range(in.lock)}
DagE(in) == Range(in.edges)

DagImplied(in, o, up) ==
  (~o.panic /\ ~o.initErr) =>
    Range(o.implied) = (IF up THEN ImpliedUp(DagL(in), DagE(in), LAMBDA n : VerIn(in, n))
                              ELSE Implied(DagL(in), DagE(in)))
DagMissed(in, o)   == (~o.panic /\ ~o.initErr /\ HasCycle(DagE(in))) => o.sortErr
DagSpurious(in, o) == (~o.panic /\ ~o.initErr /\ o.sortErr) => HasCycle(DagE(in))
DagTrace(in, o) ==
  (~o.panic /\ ~o.initErr) =>
    \A n \in DagL(in) : \E r \in Range(o.trace) : r.n = n /\ ~r.err /\ Range(r.r) = Reach(DagE(in), n)
DagStops(in, out) ==
  HasCycle(DagE(in)) => \A r \in Range(out.runs) : r.created = <<>> /\ r.changed = <<>>

-----------------------------------------------------------------------------
(* fam "install" *)
InsT(in) == Range(in.tags)
InsX(in) == InstallTarget(in.cons[1], InsT(in))
InstallMaxSat(in, o)  == InsX(in).k = "sem" => Agrees(o.pkg, InsX(in))
InstallDigest(in, o)  == InsX(in).k = "digest" => Agrees(o.pkg, InsX(in))
InstallNothing(in, o) == InsX(in).k = "none" => o.pkg.k = "none"
InstallLegal(in, o)   == /\ o.pkg.k # "none" => Legal(o.pkg, {in.cons[1]}, InsT(in))
                         /\ o.others = 0

-----------------------------------------------------------------------------
(* fam "update" *)
UpdCs(in) == Range(in.cons)
UpdX(in)  == UpdateTarget(UpdCs(in), in.iv, Range(in.tags), in.down)
Triggered(in) == ~in.inLock \/ \E c \in UpdCs(in) : ~ValidFor(in.iv, c)       \* I4
UpdateMin(in, o)  == (Triggered(in) /\ UpdX(in).k = "sem" /\ UpdX(in).key >= Key(in.iv)) => Agrees(o.pkg, UpdX(in))
UpdateMax(in, o)  == (Triggered(in) /\ UpdX(in).k = "sem" /\ UpdX(in).key <  Key(in.iv)) => Agrees(o.pkg, UpdX(in))
UpdateLegal(in, o) == /\ o.changed => Legal(o.pkg, UpdCs(in), Range(in.tags))
                      /\ o.others = 0
UpdateNoDown(in, o) == (o.changed /\ IsSem(o.pkg) /\ IsSem(in.iv) /\ ~in.down) => Key(o.pkg) >= Key(in.iv)

-----------------------------------------------------------------------------
(* fam "resolve" *)
ResD(in) == {[f |-> "s", t |-> d.t, c |-> d.c] : d \in Range(in.self)}
ResE(in) == ResD(in) \cup UNION {{[f |-> p.n, t |-> d.t, c |-> d.c] : d \in Range(p.deps)} : p \in Range(in.lock)}
ResolveSatisfied(in, o) ==
  o.ok => Satisfied("s", ResD(in), ResE(in), Range(o.present), LAMBDA n : VerIn(in, n))

-----------------------------------------------------------------------------
Viol(name, i) == PrintT("VIOL|" \o name \o "|" \o ToString(i) \o "|" \o Trace[i].scenario)

CheckDag(e, i) ==
  LET in == e.input
      out == e.output IN
  /\ (DagImplied(in, out.plain, FALSE) \/ Viol("Dag.Implied", i))
  /\ (DagImplied(in, out.upg, TRUE) \/ Viol("Dag.Implied.Upgrading", i))
  /\ ((DagMissed(in, out.plain) /\ DagMissed(in, out.upg)) \/ Viol("Dag.SortErrIffCycle.Missed", i))
  /\ ((DagSpurious(in, out.plain) /\ DagSpurious(in, out.upg)) \/ Viol("Dag.SortErrIffCycle.Spurious", i))
  /\ ((DagTrace(in, out.plain) /\ DagTrace(in, out.upg)) \/ Viol("Dag.TraceIsReach", i))
  /\ (DagStops(in, out) \/ Viol("Dag.CycleStopsInstall", i))

CheckInstall(e, i) ==
  LET in == e.input
      o == e.output IN
  /\ (InstallMaxSat(in, o) \/ Viol("Install.MaxSat", i))
  /\ (InstallDigest(in, o) \/ Viol("Install.PinnedDigest", i))
  /\ (InstallNothing(in, o) \/ Viol("Install.NothingWhenNone", i))
  /\ (InstallLegal(in, o) \/ Viol("Install.NeverViolates", i))

CheckUpdate(e, i) ==
  LET in == e.input
      o == e.output IN
  /\ (UpdateMin(in, o) \/ Viol("Update.MinUpgrade", i))
  /\ (UpdateMax(in, o) \/ Viol("Update.MaxDowngrade", i))
  /\ (UpdateLegal(in, o) \/ Viol("Update.NeverViolates", i))
  /\ (UpdateNoDown(in, o) \/ Viol("Update.NoDowngradeUnlessAllowed", i))

CheckResolve(e, i) ==
  (ResolveSatisfied(e.input, e.output) \/ Viol("Resolve.Satisfied", i))

Check(i) ==
  LET e == Trace[i] IN
  CASE e.fam = "dag"     -> CheckDag(e, i)
    [] e.fam = "install" -> CheckInstall(e, i)
    [] e.fam = "update"  -> CheckUpdate(e, i)
    [] e.fam = "resolve" -> CheckResolve(e, i)
    [] OTHER             -> Viol("UnknownFamily", i)

Init == l = 0
Next == /\ l < Len(Trace) /\ l' = l + 1 /\ Check(l')
        /\ (l' < Len(Trace) \/ PrintT("DONE|" \o ToString(l')))
Spec == Init /\ [][Next]_l
=============================================================================
