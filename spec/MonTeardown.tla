----------------------------- MODULE MonTeardown -----------------------------
(***************************************************************************)
(* Trace monitor for Teardown (C08): the ordering rules of deletion,       *)
(* evaluated on executions of the real definition / offered / claim /      *)
(* composite reconcilers sharing one store.  p is the state before the     *)
(* call (the previous record), e the call and the state after it.          *)
(***************************************************************************)
EXTENDS Integers, Sequences, FiniteSets, TLC, Json, IOUtils

Trace == ndJsonDeserialize(IOEnv.VERIF_TRACE)
VARIABLE l
Range(s) == {s[i] : i \in DOMAIN s}

Did(e, a, k) == e.ev = "call" /\ e.actor = a /\ e.abs = k /\ e.applied
XRs(s) == Range(s.post.xrs)
Claims(s) == Range(s.post.claims)

\* the composite (claim) CRD is deleted only after every instance is gone and the controller serving them was stopped
CrdXNoInstances(p, e) == Did(e, "def", "delete:crdx") => XRs(p) = {}
CrdCNoInstances(p, e) == Did(e, "off", "delete:crdc") => Claims(p) = {}
CrdXStopped(p, e) == Did(e, "def", "delete:crdx") => ~p.post.runx
CrdCStopped(p, e) == Did(e, "off", "delete:crdc") => ~p.post.runc
\* the controller is stopped (while the CRD is still ours and there) only after the instances are gone
StopXNoInstances(p, e) == (Did(e, "def", "stop:x") /\ p.post.crdx.st = "live" /\ p.post.crdx.ours) => XRs(p) = {}
StopCNoInstances(p, e) == (Did(e, "off", "stop:c") /\ p.post.crdc.st = "live" /\ p.post.crdc.ours) => Claims(p) = {}
\* the XRD's finalizers are removed only after the CRD is gone or was never ours
XrdFinalizerDef(p, e) == (e.ev = "call" /\ e.actor = "def" /\ p.post.xrd.fd /\ ~e.post.xrd.fd) => (p.post.crdx.st = "none" \/ ~p.post.crdx.ours)
XrdFinalizerOff(p, e) == (e.ev = "call" /\ e.actor = "off" /\ p.post.xrd.fo /\ ~e.post.xrd.fo) => (p.post.crdc.st = "none" \/ ~p.post.crdc.ours)
\* a claim's finalizer is removed (by the claim reconciler) only after its XR has been deleted - with the Foreground policy: is gone
ClaimFinRemoved(p, e, c) == \E q \in Claims(p) : q.name = c.name /\ q.fin /\ (\A r \in Claims(e) : r.name = c.name => ~r.fin)
ClaimAfterXR(p, e) ==
  (e.ev = "call" /\ e.actor = "claim" /\ e.abs = "update:claim" /\ e.applied) =>
     \A c \in Claims(p) : (ClaimFinRemoved(p, e, c) /\ c.ref # "none") =>
        \A x \in XRs(p) : x.name = c.ref => (x.del /\ ~e.fg)

Viol(name, i) == PrintT("VIOL|" \o name \o "|" \o ToString(i) \o "|" \o Trace[i].scenario)
\* the instance the rule found was (re)created after this reconcile's own List had come back empty (finding D9)
After(e) == IF e.listed = 0 THEN ".RecreatedAfterList" ELSE ""
Check(i) ==
  LET e == Trace[i] IN
  /\ (e.ev # "hung" \/ Viol("NoDeadlock", i))
  /\ (e.ev = "reset" \/ i = 1 \/
        LET p == Trace[i - 1] IN
        /\ (CrdXNoInstances(p, e) \/ Viol("CrdAfterAll.Instances" \o After(e), i))
        /\ (CrdCNoInstances(p, e) \/ Viol("CrdAfterAll.Instances" \o After(e), i))
        /\ (CrdXStopped(p, e) \/ Viol("CrdAfterAll.Running", i))
        /\ (CrdCStopped(p, e) \/ Viol("CrdAfterAll.Running", i))
        /\ (StopXNoInstances(p, e) \/ Viol("StopAfterGone.Instances" \o After(e), i))
        /\ (StopCNoInstances(p, e) \/ Viol("StopAfterGone.Instances" \o After(e), i))
        /\ (XrdFinalizerDef(p, e) \/ Viol("XrdFinalizer", i))
        /\ (XrdFinalizerOff(p, e) \/ Viol("XrdFinalizer", i))
        /\ (ClaimAfterXR(p, e) \/ Viol("ClaimAfterXR", i)))

Init == l = 0
Next == /\ l < Len(Trace) /\ l' = l + 1 /\ Check(l')
        /\ (l' < Len(Trace) \/ PrintT("DONE|" \o ToString(l')))
Spec == Init /\ [][Next]_l
=============================================================================
