SPECIFICATION Spec
CONSTANTS
  InitPkgs <- PkgInstalledRich
  InitRevs <- RevsSettledRich
  InitICs <- IcNone
  InitLock <- OnlyFalse
  ICs <- NoICs
  Img <- ImgBothOk
  MaxMgr = 1
  MaxRev = 0
  MaxFaults = 0
  MaxEnv = 1
  MidEnv = FALSE
  EnvKinds <- EnvEdit
  Edits <- EditsOpt
  FaultKinds <- NoFaults
  SeamOuts <- NoSeams
  FinFirst = TRUE
  FixRemoval = FALSE
  ManualInactive = TRUE
VIEW view
ACTION_CONSTRAINT Emit
CHECK_DEADLOCK FALSE
INVARIANTS RepairedMgr RemovalHandedDown
