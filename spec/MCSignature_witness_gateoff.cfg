SPECIFICATION Spec
CONSTANTS
  InitRevs <- RevFresh
  InitICs <- IcVb
  InitVst <- VstDefault
  InitOk <- OkNone
  Feats <- OnlyTrue
  Orders <- Fwd
  ICs <- NoICs
  Imgs <- ImgsNone
  MaxSig = 1
  MaxRev = 1
  MaxFaults = 0
  MaxEnv = 0
  MidEnv = TRUE
  EnvKinds <- NoEnv
  FaultKinds <- NoFaults
  GateOn = FALSE
  GateSkipsInactive = TRUE
  Sticky = TRUE
  VecICs <- NoICs
  VecEvICs <- NoICs
  VecImgs <- NoICs
VIEW view
ACTION_CONSTRAINT Emit
CHECK_DEADLOCK FALSE
INVARIANTS GateSafe
