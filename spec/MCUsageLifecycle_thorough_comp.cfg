SPECIFICATION Spec
CONSTANTS
  USeq <- S2
  Useds <- U1
  Configs <- CfgReplayComp
  InitSel <- NoSet
  InitCtl <- NoSet
  Policies <- Pol2
  DryRuns <- OnlyFalse
  HookFaults <- HookOk
  EnvKinds <- EnvReplayB
  FaultKinds <- FaultsFew
  MaxCreates = 2
  MaxRecs = 4
  MaxFaults = 1
  MaxEnv = 4
  MaxDel = 1
  MidEnv = TRUE
  BFin = TRUE
  FinFirst = TRUE
  DryRunAware = TRUE
  PanicFree = TRUE
VIEW view
ACTION_CONSTRAINT Emit
CHECK_DEADLOCK FALSE
INVARIANTS TypeOK StepProps FinBeforeLabel FinResolved OwnOnlyBy PendSane Repaired
