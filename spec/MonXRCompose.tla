---------------------------- MODULE MonXRCompose ----------------------------
(***************************************************************************)
(* Trace monitor for XRCompose: evaluates the C01 / C03 formulas (and the  *)
(* C02 placement on composed resources) on every recorded state and step   *)
(* of executions of the real composite.Reconciler with the real            *)
(* FunctionComposer / PTComposer.  Fully logged trace, linear search.      *)
(***************************************************************************)
EXTENDS Integers, Sequences, FiniteSets, TLC, Json, IOUtils

Trace == ndJsonDeserialize(IOEnv.VERIF_TRACE)
VARIABLE l
Range(s) == {s[i] : i \in DOMAIN s}

Objs(e) == Range(e.post.objs)
Refs(e) == Range(e.post.refs)
Owned(e) == {o \in Objs(e) : o.st = "live" /\ o.ctrl = "xr"}
LiveFor(e, n) == {o.id : o \in {x \in Owned(e) : x.rname = n}}
RNames(e) == {o.rname : o \in Owned(e)}
ObjOf(e, id) == {o \in Objs(e) : o.id = id}

\* ---- C01
\* every live composed resource controlled by the XR is listed in spec.resourceRefs - in every recorded state,
\* i.e. after every API call, including the last one before a crash
NoLeak(e) == \A o \in Owned(e) : o.id \in Refs(e)
\* at most one composed resource per desired resource name
AtMostOne(e) == \A n \in RNames(e) : Cardinality(LiveFor(e, n)) <= 1
\* the resource of a name keeps its metadata.name from one state to the next
NameStable(p, e) == \A n \in RNames(p) \cap RNames(e) : LiveFor(p, n) = LiveFor(e, n)
\* the composition-resource-name annotation of a composed resource names the desired resource / template its body was
\* rendered from (o.made: the scripted bodies carry their name in spec.param) - whatever annotation the author's body carried
Tie(e) == \A o \in Owned(e) : (o.made # "-" /\ o.rname # "-") => o.rname = o.made
\* a composed resource that is being deleted but still exists (deletionTimestamp set, a finalizer pending) still holds its
\* name: while its desired resource / template is still wanted and the XR controls it, a reconcile does not drop its
\* reference (and so does not compose a second resource next to it).  (Added after the seeded change C01-m7 - the P&T
\* associator treats a terminating resource as gone - was missed: NoLeak / AtMostOne speak about live resources only.)
Held(e) == {o \in Objs(e) : o.ctrl = "xr" /\ o.rname # "-" /\ o.id \in Refs(e)}
RefKept(p, e) ==
  e.ev = "call" =>
    \A o \in Held(p) : (o.rname \in Range(e.want) /\ \E q \in Objs(e) : q.id = o.id /\ q.ctrl = "xr" /\ q.rname = o.rname) => o.id \in Refs(e)
\* once a fault-free reconcile completed, the next fault-free reconcile (same desired state) changes no object:
\* the digest over all resourceVersions in the store is the one recorded at the end of the previous reconcile
Quiescent(e) == (e.ev = "end" /\ e.steady) => e.post.digest = e.prevDigest

\* the persisted reference array is a function of the SET of desired resources (vectors of MCRefOrder.tla: the real
\* UpdateResourceRefs 24 times on the same set - it ranges over a Go map): always the same sequence, holding exactly the set
RefsStable(e) == e.ev = "refsvec" => \A i \in DOMAIN e.runs : e.runs[i] = e.runs[1]
RefsComplete(e) == e.ev = "refsvec" => \A i \in DOMAIN e.runs : (Range(e.runs[i]) = Range(e.input) /\ Len(e.runs[i]) = Len(e.input))

\* ---- C03
Wrote(e) == e.ev = "call" /\ e.applied /\ ~e.noop
\* after the observation or the pipeline failed, the reconcile creates / updates / deletes no composed resource
FailSafeWrites(e) == (Wrote(e) /\ e.pfail) => e.kind # "cd"
\* ... nor did it write one BEFORE the pipeline ran: a reconcile whose pipeline failed (function error, fatal result,
\* requirements that never stabilise) has written no composed resource at all
FailSafeNothingBefore(e) == (e.ev = "end" /\ e.pfail /\ e.failKind # "") => e.cdw = 0
\* ... and leaves spec.resourceRefs untouched
FailSafeRefs(p, e) == (e.ev = "call" /\ e.pfail) => e.post.refs = p.post.refs
\* a resource that is still desired is never deleted
NeverDeleteDesired(p, e) ==
  (Wrote(e) /\ e.kind = "cd" /\ e.verb = "delete") =>
     \A o \in ObjOf(p, e.target) : ~(o.ctrl # "foreign" /\ o.rname \in Range(e.want))
\* ... judged by what the resource was rendered from as well as by its annotation
NeverDeleteDesiredMade(p, e) ==
  (Wrote(e) /\ e.kind = "cd" /\ e.verb = "delete") =>
     \A o \in ObjOf(p, e.target) : ~(o.ctrl = "xr" /\ o.made \in Range(e.want))
\* a reconcile that completed deleted exactly the referenced, controllable resources that are no longer desired
StartObjs(e) == Range(e.start.objs)
Undesired(e) == {o \in StartObjs(e) : o.id \in Range(e.start.refs) /\ o.ctrl # "foreign" /\ o.rname # "-" /\ o.rname \notin Range(e.want)}
Completed(e) == e.ev = "end" /\ e.result = "ok" /\ ~e.faulty /\ ~e.pfail
\* (e.vanished: resources the environment removed in the middle of this reconcile - there was nothing left to delete)
GcDeletesAllUndesired(e) == Completed(e) => {o.id : o \in {x \in Undesired(e) : x.st = "live"}} \subseteq (Range(e.gcd) \cup Range(e.vanished))
GcDeletesOnlyUndesired(e) == Completed(e) => Range(e.gcd) \subseteq {o.id : o \in Undesired(e)}

\* ---- C04 (rider): every pipeline step is told about every existing composed resource of this XR - every object that
\* spec.resourceRefs names and the XR controls, live or being deleted, is in the observed state of the request,
\* also when the informer cache has not seen it yet
ObservedComplete(e) ==
  e.ev = "fn" => \A o \in Objs(e) : (o.ctrl = "xr" /\ o.id \in Refs(e)) => o.id \in Range(e.observed)

\* ---- C02: a composed resource controlled by another owner is never written or deleted
ForeignUntouched(p, e) == (Wrote(e) /\ e.kind = "cd") => \A o \in ObjOf(p, e.target) : o.ctrl # "foreign"

Viol(name, i) == PrintT("VIOL|" \o name \o "|" \o ToString(i) \o "|" \o Trace[i].scenario)
Check(i) ==
  LET e == Trace[i] IN
  /\ (NoLeak(e) \/ Viol("NoLeak", i))
  /\ (AtMostOne(e) \/ Viol("AtMostOne", i))
  /\ (Quiescent(e) \/ Viol("Quiescent", i))
  /\ (Tie(e) \/ Viol("Tie", i))
  /\ (RefsStable(e) \/ Viol("Refs.Stable", i))
  /\ (RefsComplete(e) \/ Viol("Refs.Complete", i))
  /\ (ObservedComplete(e) \/ Viol("Observed.Complete", i))
  /\ (FailSafeWrites(e) \/ Viol("FailSafe.Writes", i))
  /\ (FailSafeNothingBefore(e) \/ Viol("FailSafe.NothingBefore", i))
  /\ (GcDeletesAllUndesired(e) \/ Viol("GcExact.Missed", i))
  /\ (GcDeletesOnlyUndesired(e) \/ Viol("GcExact.Extra", i))
  /\ (e.ev = "reset" \/ i = 1 \/
        LET p == Trace[i - 1] IN
        /\ (NameStable(p, e) \/ Viol("NameStable", i))
        /\ (RefKept(p, e) \/ Viol("RefKept", i))
        /\ (FailSafeRefs(p, e) \/ Viol("FailSafe.Refs", i))
        /\ (NeverDeleteDesired(p, e) \/ Viol("NeverDeleteDesired", i))
        /\ (NeverDeleteDesiredMade(p, e) \/ Viol("NeverDeleteDesired.Made", i))
        /\ (ForeignUntouched(p, e) \/ Viol("ForeignUntouched", i)))

Init == l = 0
Next == /\ l < Len(Trace) /\ l' = l + 1 /\ Check(l')
        /\ (l' < Len(Trace) \/ PrintT("DONE|" \o ToString(l')))
Spec == Init /\ [][Next]_l
=============================================================================
