SPECIFICATION Spec
CONSTANTS
  USeq <- S2
  Useds <- U2
  USel = {"u1", "u2"}
  UCtl = {"u2"}
  Versions = {"v1", "v1beta1"}
  Configs <- CfgTwo
  Policies <- Pol1
  MaxCreates = 2
  MaxFaults = 0
  MaxDel = 1
  Interleave = FALSE
  MidEnv = FALSE
  BFin = FALSE
  FixBump = FALSE
VIEW view
ACTION_CONSTRAINT EmitAll
CHECK_DEADLOCK FALSE
INVARIANTS TypeOK Allowed Owned IndexAgree
PROPERTIES UsageAfterUser
