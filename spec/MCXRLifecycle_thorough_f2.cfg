SPECIFICATION Spec
CONSTANTS
  Comps <- Comps2
  Attr <- AttrAll
  InitComps <- InitAll
  InitRefs <- NoneOnly
  InitSels <- SelsBoth
  InitDefs <- NoneOnly
  InitEnfs <- NoneOnly
  InitUser <- OnlyFalse
  InitOFin <- OnlyFalse
  MaxRecs = 3
  MaxFaults = 2
  MaxEnv = 3
  MidEnv = TRUE
  EnvKinds <- EnvXR
  FaultKinds <- FaultsAll
  ComposeOuts <- OutsAll
  FinFirst = TRUE
  RvCheck = TRUE
VIEW view
ACTION_CONSTRAINT Emit
CHECK_DEADLOCK FALSE
INVARIANTS StepProps Repaired FinBeforeCompose
