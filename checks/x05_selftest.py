#!/usr/bin/env python3
"""Anti-vacuity self test of the X05 check (run by hand: python3 checks/x05_selftest.py [name-filter ...]).

1. sanity mutants of the real validator / webhook / schema-less validation, applied ONLY through `go build -overlay`
   (nothing is written to /repo): each must make MonCompValidation report the expected formulas (more often than on the
   unchanged tree); three "repair" mutants (candidate fixes of the three findings) must make the finding's formula fall silent;
2. seeded corruption of one recorded field of a real trace: MonCompValidation must reject that line.
Scratch: /verif/.work/X05/selftest (run it when no ./check X05 is running: the check wipes /verif/.work/X05)."""
import json
import os
import subprocess
import sys

sys.path.insert(0, os.path.dirname(os.path.dirname(os.path.abspath(__file__))))
import vlib  # noqa: E402
from checks import x05  # noqa: E402,F401

VAL = "pkg/validation/apiextensions/v1/composition/"
HOOK = "internal/validation/apiextensions/v1/composition/"
MUTANTS = [
    # (name, file in /repo, old text, new text, formulas that must fire / rise, formulas that must fall silent)
    ("from-composite-schemas-swapped", VAL + "patches.go",
     "\tcase v1.PatchTypeFromCompositeFieldPath:\n\t\tfromType, toType, validationErr = validateFromCompositeFieldPathPatch(\n\t\t\tctx.patch,\n"
     "\t\t\tgetSchemaForVersion(ctx.compositeCRD, ctx.compositeResGVK.Version),\n\t\t\tgetSchemaForVersion(ctx.resourceCRD, ctx.resourceGVK.Version),\n",
     "\tcase v1.PatchTypeFromCompositeFieldPath:\n\t\tfromType, toType, validationErr = validateFromCompositeFieldPathPatch(\n\t\t\tctx.patch,\n"
     "\t\t\tgetSchemaForVersion(ctx.resourceCRD, ctx.resourceGVK.Version),\n\t\t\tgetSchemaForVersion(ctx.compositeCRD, ctx.compositeResGVK.Version),\n",
     ["Path.FromInvalid", "Path.Plain"], []),
    ("every-resource-typed-like-the-first", VAL + "patches.go",
     "\tresourceGVK, err := GetBaseObjectGVK(&resource)\n",
     "\tresourceGVK, err := GetBaseObjectGVK(&comp.Spec.Resources[0])\n",
     ["Path.Plain"], []),
    ("math-accepts-any-input", VAL + "patches.go",
     "\t\tif fromType != v1.TransformIOTypeInt && fromType != v1.TransformIOTypeInt64 && fromType != v1.TransformIOTypeFloat64 {",
     "\t\tif false {",
     ["Sound.Applies"], []),
    ("join-accepts-any-input", VAL + "patches.go",
     "\t\t\tif fromType != v1.TransformIOTypeArray {",
     "\t\t\tif false {",
     ["Sound.Applies"], []),
    ("map-accepts-any-input", VAL + "patches.go",
     "\tcase v1.TransformTypeMap:\n\t\tif fromType != v1.TransformIOTypeString {",
     "\tcase v1.TransformTypeMap:\n\t\tif false {",
     ["Sound.Applies"], []),
    ("only-first-transform-typed", VAL + "patches.go",
     "\tfor i, transform := range transforms {\n\t\terr := IsValidInputForTransform(&transform, inputType)\n\t\tif err != nil && inputType != \"\" {",
     "\tfor i, transform := range transforms {\n\t\terr := IsValidInputForTransform(&transform, inputType)\n\t\tif err != nil && inputType != \"\" && i == 0 {",
     ["Sound.Applies"], []),
    ("undeclared-field-accepted", VAL + "patches.go",
     "\t\treturn nil, errors.Errorf(errFmtFieldInvalid, segment.Field)",
     "\t\treturn nil, nil",
     ["Path.FromInvalid", "Path.ToInvalid", "Readiness.PathInvalid", "ConnDetails.PathInvalid"], []),
    ("field-of-scalar-accepted", VAL + "patches.go",
     "\t\treturn nil, errors.Errorf(errFmtFieldAccessWrongType, segment.Field, propType)",
     "\t\treturn nil, nil",
     ["Path.FromInvalid", "Path.ToInvalid"], []),
    ("max-items-off-by-one", VAL + "patches.go",
     "\tif parent.MaxItems != nil && *parent.MaxItems < int64(segment.Index+1) {",
     "\tif parent.MaxItems != nil && *parent.MaxItems < int64(segment.Index) {",
     ["Path.FromInvalid", "Path.ToInvalid"], []),
    ("metadata-not-defaulted", VAL + "patches.go",
     "\t\tschema = defaultMetadataSchema(schema)",
     "\t\t_ = defaultMetadataSchema",
     ["Path.Plain"], []),
    ("metadata-defaulting-opens-shared-schema", VAL + "schema.go",
     "\tif out.Type == \"\" {\n\t\tout.Type = string(schema.KnownJSONTypeObject)\n\t}\n\tif out.Properties == nil {",
     "\tif sp, ok := out.Properties[\"spec\"]; ok {\n\t\tt := true\n\t\tsp.XPreserveUnknownFields = &t\n\t\tout.Properties[\"spec\"] = sp\n\t}\n"
     "\tif out.Type == \"\" {\n\t\tout.Type = string(schema.KnownJSONTypeObject)\n\t}\n\tif out.Properties == nil {",
     ["Deterministic.Instance"], []),
    ("errors-reported-every-other-time", VAL + "validator.go",
     "\t// TODO(phisco): add more  phase 3 validation here\n\treturn nil, errs",
     "\tverifCalls++\n\tif verifCalls%2 == 0 {\n\t\terrs = nil\n\t}\n\treturn nil, errs",
     ["Deterministic.Repeat"], []),
    ("wildcard-panics", VAL + "patches.go",
     "\tif propType := parent.Type; propType != \"\" && propType != string(xpschema.KnownJSONTypeObject) {",
     "\tif segment.Field == \"*\" {\n\t\tpanic(\"wildcard\")\n\t}\n\tif propType := parent.Type; propType != \"\" && propType != string(xpschema.KnownJSONTypeObject) {",
     ["Total.Validator"], []),
    ("readiness-integer-not-checked", VAL + "readinessChecks.go",
     "\tcase v1.ReadinessCheckTypeMatchInteger:\n\t\tmatchType = xpschema.KnownJSONTypeInteger\n",
     "\tcase v1.ReadinessCheckTypeMatchInteger:\n",
     ["Readiness.TypeMismatch", "Readiness.Sound"], []),
    ("readiness-path-not-checked", VAL + "readinessChecks.go",
     "\t\tif err != nil {\n\t\t\terrs = append(errs, field.Invalid(field.NewPath(\"readinessCheck\").Index(j).Child(\"fieldPath\"), r.FieldPath, err.Error()))\n\t\t\tcontinue\n\t\t}",
     "\t\tif err != nil {\n\t\t\tcontinue\n\t\t}",
     ["Readiness.PathInvalid"], []),
    ("connection-details-not-validated", VAL + "connectionDetails.go",
     "\tif con.FromFieldPath != nil {\n",
     "\tif con.FromFieldPath != nil && false {\n",
     ["ConnDetails.PathInvalid"], []),
    ("connection-details-against-nothing-declared", VAL + "connectionDetails.go",
     "\t\t\tif err := validateConnectionDetail(con, getSchemaForVersion(crd, gvk.Version)); err != nil {",
     "\t\t\tif err := validateConnectionDetail(con, &apiextensions.JSONSchemaProps{Type: \"object\", Description: crd.Name}); err != nil {",
     ["ConnDetails.Accepts"], []),
    ("loose-rejects-missing-crds", HOOK + "handler.go",
     "\t\tif validationMode == v1.SchemaAwareCompositionValidationModeStrict || containsOtherThanNotFound(errs) {",
     "\t\tif validationMode != v1.SchemaAwareCompositionValidationModeWarn || containsOtherThanNotFound(errs) {",
     ["Mode.Loose.MissingCRD"], []),
    ("strict-tolerates-missing-crds", HOOK + "handler.go",
     "\t\tif validationMode == v1.SchemaAwareCompositionValidationModeStrict || containsOtherThanNotFound(errs) {",
     "\t\tif containsOtherThanNotFound(errs) {",
     ["Mode.Strict.MissingCRD"], []),
    ("lookup-errors-tolerated", HOOK + "handler.go",
     "\t\tif validationMode == v1.SchemaAwareCompositionValidationModeStrict || containsOtherThanNotFound(errs) {",
     "\t\tif validationMode == v1.SchemaAwareCompositionValidationModeStrict {",
     ["Mode.LookupError"], []),
    ("warn-mode-rejects", HOOK + "handler.go",
     "\t\tif validationMode != v1.SchemaAwareCompositionValidationModeWarn {\n",
     "\t\tif true {\n",
     ["Mode.Warn.SchemaError", "Mode.Agree.Warn"], []),
    ("loose-mode-only-warns", HOOK + "handler.go",
     "\t\tif validationMode != v1.SchemaAwareCompositionValidationModeWarn {\n",
     "\t\tif validationMode == v1.SchemaAwareCompositionValidationModeStrict {\n",
     ["Mode.Loose.SchemaError", "Mode.Agree.Loose"], []),
    ("logical-validation-not-enforced-by-webhook", HOOK + "handler.go",
     "\tif len(validationErrs) != 0 {\n\t\treturn warns, kerrors.NewInvalid(comp.GroupVersionKind().GroupKind(), comp.GetName(), validationErrs)\n\t}",
     "\t_ = validationErrs",
     ["Mode.Logical"], []),
    ("feature-flag-ignored", HOOK + "handler.go",
     "\tif !v.options.Features.Enabled(features.EnableBetaCompositionWebhookSchemaValidation) {\n\t\treturn warns, nil\n\t}",
     "",
     ["Mode.FeatureOff"], []),
    ("unknown-mode-annotation-means-warn", "apis/apiextensions/v1/composition_webhooks.go",
     "\treturn \"\", errors.Errorf(errFmtInvalidCompositionValidationMode, mode)",
     "\treturn DefaultSchemaAwareCompositionValidationMode, errors.Wrap(nil, mode)",
     ["Mode.BadAnnotation"], []),
    # reverts of the two repairs made in /repo (67466d9, aae2ee2): the finding's formula must fire again
    ("REVERT-convert-object-guard", VAL + "patches.go",
     "\t\t// The convert transform only accepts scalar inputs. Objects and arrays\n\t\t// would be rejected with an invalid input type error at runtime.\n\t\tif fromType == v1.TransformIOTypeObject || fromType == v1.TransformIOTypeArray {\n\t\t\treturn errors.Errorf(\"convert transform does not support %s input\", fromType)\n\t\t}\n",
     "",
     ["Sound.ConvertObjectInput"], []),
    ("REVERT-matchcondition-required", "apis/apiextensions/v1/composition_common.go",
     "\t\tif r.MatchCondition == nil {\n\t\t\treturn field.Required(field.NewPath(\"matchCondition\"), \"cannot be nil for type MatchCondition\")\n\t\t}\n",
     "",
     ["Readiness.Sound.NoMatchCondition"], []),
    # candidate repair of the open finding: its formula must fall silent (the behaviour changed)
    ("REPAIR-convert-identity-needs-no-format", VAL + "patches.go",
     "\t\tif _, err := composite.GetConversionFunc(t.Convert, fromType); err != nil {",
     "\t\tif t.Convert.GetFormat() != v1.ConvertTransformFormatNone && fromType == v1.TransformIOTypeFloat64 && t.Convert.ToType == v1.TransformIOTypeFloat64 {\n"
     "\t\t\treturn errors.Errorf(\"a number may be an integer at run time: conversion from int64 to float64 is not supported with format %s\", t.Convert.GetFormat())\n\t\t}\n"
     "\t\tif _, err := composite.GetConversionFunc(t.Convert, fromType); err != nil {",
     [], ["Sound.ConvertFormatOnInteger"]),
]
EXTRA_DECL = {"errors-reported-every-other-time": "\nvar verifCalls int\n"}


def build_mutant(ctx, name, rel, old, new):
    src = open(os.path.join("/repo", rel)).read()
    if src.count(old) != 1:
        raise SystemExit("mutant %s: anchor text occurs %d times in %s" % (name, src.count(old), rel))
    d = os.path.join(ctx.work, "mutants", name)
    os.makedirs(d, exist_ok=True)
    mp = os.path.join(d, os.path.basename(rel))
    with open(mp, "w") as f:
        f.write(src.replace(old, new) + EXTRA_DECL.get(name, ""))
    ov = os.path.join(d, "overlay.json")
    with open(ov, "w") as f:
        json.dump({"Replace": {os.path.join("/repo", rel): mp}}, f)
    out = os.path.join(d, "compvalidation")
    e = dict(os.environ)
    e.update(vlib.GOENV)
    p = subprocess.run(["go", "build", "-overlay", ov, "-o", out, "./drivers/compvalidation"], cwd=vlib.HARNESS, env=e,
                       stdout=subprocess.PIPE, stderr=subprocess.STDOUT, text=True)
    if p.returncode != 0:
        raise SystemExit("mutant %s does not build:\n%s" % (name, p.stdout[-3000:]))
    return out


def judge(ctx, binp, scs, tag):
    prefix, _ = ctx.run_sharded(binp, scs, ["-chunk", "1000"], shards=6, name="trace_" + tag)
    viols, _ = ctx.monitor("MonCompValidation", prefix, par=8)
    by = {}
    for f, _, _ in set(viols):
        by[f] = by.get(f, 0) + 1
    return by, prefix


def main():
    only = sys.argv[1:]
    ctx = vlib.Ctx("X05/selftest", "quick", 1)
    mc = ctx.model_check("MCCompValidation", "MCCompValidation_quick.cfg", workers=8, timeout=180)
    vecs = sorted((v for _, v in ctx.sample_lines(mc["emitted_file"], 10 ** 9, mc["emitted"])), key=lambda v: json.dumps(v, sort_keys=True))
    scs = [{"id": "X05-%07d" % i, "input": v} for i, v in enumerate(vecs, 1)]
    # every vector of the small families and a feature-covering third of the patch vectors are enough to see every formula
    # (and keep the self test short)
    keep = set(json.dumps(v, sort_keys=True) for _, v in ctx.sample_lines_stratified(mc["emitted_file"], 4000, mc["emitted"]))
    scs = x05.regression() + [s for s in scs if s["input"]["fam"] != "patch" or json.dumps(s["input"], sort_keys=True) in keep]
    ok = True
    base, prefix = judge(ctx, ctx.go_build("./drivers/compvalidation"), scs, "base")
    print("unchanged tree (%d vectors):" % len(scs), base, flush=True)
    for name, rel, old, new, expect, silent in MUTANTS:
        if only and not any(o in name for o in only):
            continue
        got, _ = judge(ctx, build_mutant(ctx, name, rel, old, new), scs, name)
        raised = {f: n for f, n in got.items() if n > base.get(f, 0)}
        hit = all(f in raised for f in expect) and all(f not in got for f in silent)
        ok &= hit
        verdict = ("SILENCED " + str(silent) if silent else "DETECTED") if hit else "MISSED (expected %s, silent %s)" % (expect, silent)
        print("mutant %-48s %s  new/raised: %s" % (name, verdict, raised), flush=True)
    # seeded corruption of recorded fields of the unchanged tree's trace
    files = sorted(os.path.join(ctx.work, f) for f in os.listdir(ctx.work) if f.startswith(os.path.basename(prefix) + "."))
    lines = []
    for fp in files:
        lines += open(fp).read().splitlines()

    def patch(e):
        return e["fam"] == "patch"

    def both(e, k, **kw):
        e["out"]["val"][k].update(kw)

    corruptions = [
        ("validator panic recorded", lambda e: patch(e), lambda e: both(e, "direct", o="panic", acc=False), "Total.Validator"),
        ("webhook did not answer", lambda e: patch(e), lambda e: both(e, "strict", o="undecodable"), "Total.Webhook"),
        ("second run differs", lambda e: patch(e) and e["out"]["val"]["direct"]["n"] == 1, lambda e: both(e, "again", n=2), "Deterministic.Repeat"),
        ("fresh instance differs", lambda e: patch(e) and not e["out"]["val"]["direct"]["acc"] and e["out"]["val"]["logical"]["n"] == 0,
         lambda e: both(e, "fresh", acc=True, n=0, errs=[]), "Deterministic.Instance"),
        ("accepted patch fails with a type error", lambda e: patch(e) and e["out"]["val"]["direct"]["acc"] and e["input"]["from"] == "int" and e["input"]["chain"] == ["math.mul"]
         and e["input"]["xrs"] == "typed", lambda e: e["out"]["rt"][0].update(o="error", ek="type"), "Sound.Applies"),
        ("optional absent source is an error", lambda e: patch(e) and e["out"]["val"]["direct"]["acc"] and e["input"]["pol"] == "Optional" and any(s["id"] == "absent" for s in e["out"]["rt"]),
         lambda e: [s.update(o="error", ek="notfound") for s in e["out"]["rt"] if s["id"] == "absent"], "Sound.OptionalAbsent"),
        ("invalid source path accepted", lambda e: patch(e) and e["input"]["from"] == "nope" and e["input"]["to"] == "freek" and e["input"]["xrs"] == "typed" and e["input"]["ptype"] == "FromCompositeFieldPath",
         lambda e: (both(e, "direct", acc=True, n=0, errs=[]), both(e, "again", acc=True, n=0, errs=[]), both(e, "fresh", acc=True, n=0, errs=[])), "Path.FromInvalid"),
        ("plain copy rejected", lambda e: patch(e) and e["input"]["from"] == "str" and e["input"]["to"] == "str" and e["input"]["chain"] == [] and e["out"]["val"]["direct"]["acc"],
         lambda e: (both(e, "direct", acc=False, n=1), both(e, "again", acc=False, n=1), both(e, "fresh", acc=False, n=1)), "Path.Plain"),
        ("strict webhook disagrees with the library", lambda e: patch(e) and e["out"]["val"]["direct"]["acc"], lambda e: both(e, "strict", allowed=False), "Mode.Agree.Strict"),
        ("warn mode rejected", lambda e: patch(e) and not e["out"]["val"]["direct"]["acc"] and e["out"]["val"]["logical"]["n"] == 0 and e["out"]["val"]["warn"]["o"] == "ok",
         lambda e: both(e, "warn", allowed=False), "Mode.Agree.Warn"),
        ("loose mode rejected a missing CRD", lambda e: e["fam"] == "mode" and e["input"]["mode"] == "loose" and e["input"]["crds"] in ("noother", "noxr", "nothing", "none") and e["input"]["feat"] == "on" and e["input"]["body"] != "logicerr",
         lambda e: e["out"]["hook"].update(allowed=False), "Mode.Loose.MissingCRD"),
        ("strict mode allowed a missing CRD", lambda e: e["fam"] == "mode" and e["input"]["mode"] == "strict" and e["input"]["crds"] == "noxr" and e["input"]["feat"] == "on" and e["input"]["body"] == "valid",
         lambda e: (e["out"]["hook"].update(allowed=True), e["out"]["hookup"].update(allowed=True)), "Mode.Strict.MissingCRD"),
        ("logically invalid allowed", lambda e: e["fam"] == "mode" and e["input"]["body"] == "logicerr" and e["input"]["mode"] == "warn",
         lambda e: (e["out"]["hook"].update(allowed=True), e["out"]["hookup"].update(allowed=True)), "Mode.Logical"),
        ("update differs from create", lambda e: e["fam"] == "mode" and e["out"]["hook"]["allowed"], lambda e: e["out"]["hookup"].update(allowed=False), "Mode.UpdateSameAsCreate"),
        ("readiness type mismatch accepted", lambda e: e["fam"] == "ready" and e["input"]["rtype"] == "MatchInteger" and e["input"]["path"] == "str" and e["input"]["mi"] == 1 and e["input"]["cds"] == "typed",
         lambda e: (both(e, "direct", acc=True, n=0, errs=[]), both(e, "again", acc=True, n=0, errs=[]), both(e, "fresh", acc=True, n=0, errs=[])), "Readiness.TypeMismatch"),
        ("connection detail path accepted", lambda e: e["fam"] == "conn" and e["input"]["path"] == "nope" and e["input"]["cds"] == "typed",
         lambda e: (both(e, "direct", acc=True, n=0, errs=[]), both(e, "again", acc=True, n=0, errs=[]), both(e, "fresh", acc=True, n=0, errs=[])), "ConnDetails.PathInvalid"),
    ]
    for what, pick, mutate, formula in corruptions:
        idx = next((i for i, ln in enumerate(lines) if pick(json.loads(ln))), None)
        if idx is None:
            ok = False
            print("corruption %-45s NO SUCH LINE in the trace" % what)
            continue
        e = json.loads(lines[idx])
        mutate(e)
        cp = os.path.join(ctx.work, "corrupt.ndjson")
        lo = max(0, idx - 2)
        with open(cp, "w") as f:
            f.write("\n".join(lines[lo:idx] + [json.dumps(e)] + lines[idx + 1:idx + 3]) + "\n")
        viols, _ = ctx.monitor("MonCompValidation", cp)
        hit = any(f == formula and ln == idx - lo + 1 for f, ln, _ in viols)
        ok &= hit
        print("corruption %-45s %s" % (what, "REJECTED by " + formula if hit else "NOT NOTICED (%s)" % [v[0] for v in viols if v[1] == idx - lo + 1]), flush=True)
    print("selftest", "PASSED" if ok else "FAILED")
    return 0 if ok else 1


if __name__ == "__main__":
    sys.exit(main())
