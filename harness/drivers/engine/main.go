// Driver for spec/Engine.tla: replays TLC interleavings on the real
// engine.ControllerEngine (+ StoppableSource, InformerTrackingCache) and the
// real composed-resource watch garbage collector. Every operation runs in its
// own goroutine; the goroutines are gated at exactly the points where the
// engine has released all locks and will later act on what it read (inside
// the fakes the engine calls out to: no hook in the repository), so a TLC
// schedule is replayed deterministically. A second mode runs the operations
// truly concurrently (random stress, optionally under the race detector) and
// records the state at quiescence.
package main

import (
	"context"
	"encoding/json"
	"flag"
	"fmt"
	"math/rand"
	"os"
	goruntime "runtime"
	"sort"
	"strconv"
	"strings"
	"sync"
	"time"

	"github.com/go-logr/logr"
	kerrors "k8s.io/apimachinery/pkg/api/errors"
	metav1 "k8s.io/apimachinery/pkg/apis/meta/v1"
	"k8s.io/apimachinery/pkg/apis/meta/v1/unstructured"
	"k8s.io/apimachinery/pkg/runtime"
	"k8s.io/apimachinery/pkg/runtime/schema"
	kcache "k8s.io/client-go/tools/cache"
	"k8s.io/client-go/util/workqueue"
	"sigs.k8s.io/controller-runtime/pkg/cache"
	"sigs.k8s.io/controller-runtime/pkg/client"
	kcontroller "sigs.k8s.io/controller-runtime/pkg/controller"
	"sigs.k8s.io/controller-runtime/pkg/event"
	"sigs.k8s.io/controller-runtime/pkg/handler"
	"sigs.k8s.io/controller-runtime/pkg/manager"
	"sigs.k8s.io/controller-runtime/pkg/reconcile"
	"sigs.k8s.io/controller-runtime/pkg/source"

	"github.com/crossplane/crossplane-runtime/pkg/resource"

	"github.com/crossplane/crossplane/internal/controller/apiextensions/composite/watch"
	"github.com/crossplane/crossplane/internal/engine"
	"github.com/crossplane/crossplane/zzverif/fakes"
	"github.com/crossplane/crossplane/zzverif/scen"
	"github.com/crossplane/crossplane/zzverif/trace"
)

var xrGVK = schema.GroupVersionKind{Group: "ex.org", Version: "v1", Kind: "XThing"}

func gvkOf(wid string) schema.GroupVersionKind {
	switch wid {
	case "xr":
		return xrGVK
	case "rev":
		return schema.GroupVersionKind{Group: "apiextensions.crossplane.io", Version: "v1", Kind: "CompositionRevision"}
	}
	return schema.GroupVersionKind{Group: "ex.org", Version: "v1", Kind: "K" + wid}
}

func typeOf(wid string) engine.WatchType {
	switch wid {
	case "xr":
		return engine.WatchTypeCompositeResource
	case "rev":
		return engine.WatchTypeCompositionRevision
	}
	return engine.WatchTypeComposedResource
}

func widOf(id engine.WatchID) string {
	for _, w := range []string{"xr", "rev", "cdA", "cdB", "cdC"} {
		if gvkOf(w) == id.GVK && typeOf(w) == id.Type {
			return w
		}
	}
	return string(id.Type) + "/" + id.GVK.Kind
}

func objOf(wid string) client.Object {
	u := &unstructured.Unstructured{}
	u.SetGroupVersionKind(gvkOf(wid))
	return u
}

// ---- the world: fakes around the real engine

type world struct {
	mu   sync.Mutex // protects the fakes' own state (not a scheduler)
	eng  *engine.ControllerEngine
	infs *gatedInfs

	informers  map[schema.GroupVersionKind]*fakeInformer
	insts      []*fakeController // instance id = index + 1
	running    map[string]int    // controller name -> instance, from the returns of Start / Stop
	stopped    map[int]bool
	refs       []string        // composed wids some XR references
	drefs      []string        // ... those referenced only by an XR that is being deleted
	byG        map[int64]*proc // goroutine id -> the operation it runs
	probe      *probeResult
	failRemove bool // the next RemoveEventHandler call fails (one shot)

	// scheduler
	gated bool
	cur   int
	procs map[int]*proc
}

type proc struct {
	id      int
	release chan struct{}
	at      chan string // "gate" or "done"
	res     opResult
	info    map[string]any
	pending string // a message already taken from at by an atomicity probe
	holdAt  int    // atomicity probe: pause at the holdAt-th internal point of the segment about to run (-1: nowhere)
	holdN   int    // internal points passed since the last release
	early   bool   // already started / released by an atomicity probe
}

// goid is the id of the calling goroutine (the fakes are called on the goroutine of the operation).
func goid() int64 {
	var buf [64]byte
	n := goruntime.Stack(buf[:], false)
	f := strings.Fields(string(buf[:n]))
	if len(f) < 2 {
		return -1
	}
	id, _ := strconv.ParseInt(f[1], 10, 64)
	return id
}

// me is the operation the calling goroutine runs (the scheduled one if the call comes from another goroutine).
// Callers hold w.mu.
func (w *world) me() *proc {
	if p := w.byG[goid()]; p != nil {
		return p
	}
	return w.procs[w.cur]
}

type opResult struct {
	r string
	a []string
}

// gate pauses the current goroutine (deterministic mode only).
func (w *world) gate(point string) {
	if !w.gated {
		return
	}
	w.mu.Lock()
	p := w.me()
	var rel chan struct{}
	if p != nil {
		rel = p.release
	}
	w.mu.Unlock()
	if p == nil {
		return
	}
	p.at <- "gate:" + point
	<-rel
}

// hold marks an internal point of an operation: a call the engine makes on its informers, cache or controller
// while it holds the locks of a segment that the model treats as atomic.  An atomicity probe (see replay) pauses
// the operation at one of them for a moment to see whether another operation can run meanwhile.
func (w *world) hold(point string) {
	if !w.gated {
		return
	}
	w.mu.Lock()
	p := w.byG[goid()] // only the goroutine of the operation itself
	fire := false
	if p != nil && p.holdAt >= 0 {
		if p.holdN == p.holdAt {
			fire, p.holdAt = true, -1
		}
		p.holdN++
	}
	w.mu.Unlock()
	if fire {
		w.gate("hold:" + point)
	}
}

// ---- fake informers (the cache under the real InformerTrackingCache)

type registration struct {
	id   int
	inf  *fakeInformer
	h    kcache.ResourceEventHandler
	inst int
	wid  string
}

func (r *registration) HasSynced() bool { return true }

type fakeInformer struct {
	w    *world
	gvk  schema.GroupVersionKind
	regs map[int]*registration
	next int
	gone bool // removed from the cache: stopped
}

func (i *fakeInformer) AddEventHandler(h kcache.ResourceEventHandler) (kcache.ResourceEventHandlerRegistration, error) {
	i.w.hold("add-handler")
	i.w.mu.Lock()
	i.next++
	r := &registration{id: i.next, inf: i, h: h}
	i.regs[r.id] = r
	// find out which (controller instance, watch) this handler belongs to by sending a probe event through it
	pr := &probeResult{}
	i.w.probe = pr
	i.w.mu.Unlock()
	u := &unstructured.Unstructured{}
	u.SetGroupVersionKind(i.gvk)
	u.SetName("verif-probe")
	h.OnAdd(u, true)
	i.w.mu.Lock()
	r.inst, r.wid = pr.inst, pr.wid
	i.w.probe = nil
	i.w.mu.Unlock()
	return r, nil
}

func (i *fakeInformer) AddEventHandlerWithResyncPeriod(h kcache.ResourceEventHandler, _ time.Duration) (kcache.ResourceEventHandlerRegistration, error) {
	return i.AddEventHandler(h)
}

func (i *fakeInformer) RemoveEventHandler(reg kcache.ResourceEventHandlerRegistration) error {
	i.w.hold("remove-handler")
	i.w.mu.Lock()
	defer i.w.mu.Unlock()
	if i.w.failRemove {
		i.w.failRemove = false
		return fmt.Errorf("informer: cannot remove event handler (injected)")
	}
	if r, ok := reg.(*registration); ok {
		delete(r.inf.regs, r.id)
	}
	return nil
}
func (i *fakeInformer) AddIndexers(kcache.Indexers) error { return nil }
func (i *fakeInformer) HasSynced() bool                   { return true }
func (i *fakeInformer) IsStopped() bool {
	i.w.mu.Lock()
	defer i.w.mu.Unlock()
	return i.gone
}

type fakeCache struct {
	cache.Cache // nil: only the Informers part is used
	w           *world
}

func (c *fakeCache) GetInformer(_ context.Context, obj client.Object, _ ...cache.InformerGetOption) (cache.Informer, error) {
	return c.GetInformerForKind(context.Background(), obj.GetObjectKind().GroupVersionKind())
}

func (c *fakeCache) GetInformerForKind(_ context.Context, gvk schema.GroupVersionKind, _ ...cache.InformerGetOption) (cache.Informer, error) {
	c.w.hold("get-informer")
	c.w.mu.Lock()
	defer c.w.mu.Unlock()
	i, ok := c.w.informers[gvk]
	if !ok {
		i = &fakeInformer{w: c.w, gvk: gvk, regs: map[int]*registration{}}
		c.w.informers[gvk] = i
	}
	return i, nil
}

func (c *fakeCache) RemoveInformer(_ context.Context, obj client.Object) error {
	c.w.hold("remove-informer")
	c.w.mu.Lock()
	defer c.w.mu.Unlock()
	if i, ok := c.w.informers[obj.GetObjectKind().GroupVersionKind()]; ok {
		i.gone = true
	}
	// a start request in flight is not the "next start request" after this loss
	for _, p := range c.w.procs {
		if l, ok := p.info["lost"].([]string); ok {
			kept := []string{}
			for _, wid := range l {
				if gvkOf(wid) != obj.GetObjectKind().GroupVersionKind() {
					kept = append(kept, wid)
				}
			}
			p.info["lost"] = kept
		}
	}
	delete(c.w.informers, obj.GetObjectKind().GroupVersionKind())
	return nil
}

// Get: a cached read starts the informer of the kind (as the real cache does) and finds nothing.
func (c *fakeCache) Get(ctx context.Context, key client.ObjectKey, obj client.Object, _ ...client.GetOption) error {
	gvk := obj.GetObjectKind().GroupVersionKind()
	if _, err := c.GetInformerForKind(ctx, gvk); err != nil {
		return err
	}
	return kerrors.NewNotFound(schema.GroupResource{Group: gvk.Group, Resource: gvk.Kind}, key.Name)
}

func (c *fakeCache) IndexField(context.Context, client.Object, string, client.IndexerFunc) error {
	return nil
}

// gatedInfs is the real InformerTrackingCache; ActiveInformers pauses after the snapshot was taken.
type gatedInfs struct {
	*engine.InformerTrackingCache
	w        *world
	lastSnap []string
}

func (g *gatedInfs) ActiveInformers() []schema.GroupVersionKind {
	a := g.InformerTrackingCache.ActiveInformers()
	snap := []string{}
	for _, gvk := range a {
		for _, wid := range []string{"xr", "rev", "cdA", "cdB", "cdC"} {
			if gvkOf(wid) == gvk {
				snap = append(snap, wid)
			}
		}
	}
	sort.Strings(snap)
	// Only the first snapshot of an operation is a gate: it is taken with no lock held. (The repaired
	// StartWatches takes a second one under the controller's lock; pausing there would block everybody.)
	// An atomicity probe (see replay) also pauses a caller at its second snapshot - for a moment only, to see
	// whether another caller can get there as well.
	first := false
	g.w.mu.Lock()
	if p := g.w.me(); p != nil && g.w.gated {
		if _, seen := p.info["snapshot"]; !seen {
			p.info["snapshot"] = snap
			first = true
		}
	}
	g.w.mu.Unlock()
	if first {
		g.w.gate("snapshot")
	} else {
		g.w.hold("snapshot2")
	}
	return a
}

// ---- fake controller-runtime controller

type fakeController struct {
	w       *world
	id      int
	name    string
	q       workqueue.TypedRateLimitingInterface[reconcile.Request]
	started chan struct{}
	mu      sync.Mutex
	ctx     context.Context
}

func (c *fakeController) Reconcile(context.Context, reconcile.Request) (reconcile.Result, error) {
	return reconcile.Result{}, nil
}
func (c *fakeController) Watch(src source.TypedSource[reconcile.Request]) error {
	c.mu.Lock()
	ctx := c.ctx
	c.mu.Unlock()
	if ctx == nil {
		ctx = context.Background()
	}
	return src.Start(ctx, c.q)
}
func (c *fakeController) Start(ctx context.Context) error {
	c.mu.Lock()
	c.ctx = ctx
	c.mu.Unlock()
	close(c.started)
	<-ctx.Done()
	return nil
}
func (c *fakeController) GetLogger() logr.Logger { return logr.Discard() }
func (c *fakeController) cancelled() bool {
	c.mu.Lock()
	defer c.mu.Unlock()
	return c.ctx != nil && c.ctx.Err() != nil
}

// instQueue identifies the controller instance a probe event was routed to.
type instQueue struct {
	workqueue.TypedRateLimitingInterface[reconcile.Request]
	inst int
}

type probeResult struct {
	inst int
	wid  string
}

// watchHandler is the event handler of one logical watch; it records probe events.
type watchHandler struct {
	w   *world
	wid string
}

func (h *watchHandler) Create(_ context.Context, _ event.CreateEvent, q workqueue.TypedRateLimitingInterface[reconcile.Request]) {
	h.w.mu.Lock()
	defer h.w.mu.Unlock()
	if h.w.probe != nil {
		h.w.probe.wid = h.wid
		if iq, ok := q.(*instQueue); ok {
			h.w.probe.inst = iq.inst
		}
	}
}
func (h *watchHandler) Update(context.Context, event.UpdateEvent, workqueue.TypedRateLimitingInterface[reconcile.Request]) {
}
func (h *watchHandler) Delete(context.Context, event.DeleteEvent, workqueue.TypedRateLimitingInterface[reconcile.Request]) {
}
func (h *watchHandler) Generic(context.Context, event.GenericEvent, workqueue.TypedRateLimitingInterface[reconcile.Request]) {
}

var _ handler.EventHandler = &watchHandler{}

// ---- the engine as the collector sees it: the real engine, recorded and gated

type recEngine struct {
	w *world
	c client.Client
}

func (e *recEngine) GetWatches(name string) ([]engine.WatchID, error) {
	ws, err := e.w.eng.GetWatches(name)
	if err == nil {
		e.w.gate("gc-getwatches")
	}
	return ws, err
}
func (e *recEngine) StopWatches(ctx context.Context, name string, ws ...engine.WatchID) (int, error) {
	ids := []string{}
	for _, id := range ws {
		ids = append(ids, widOf(id))
	}
	sort.Strings(ids)
	e.w.mu.Lock()
	if p := e.w.me(); p != nil && e.w.gated {
		p.info["gcstop"] = ids
	}
	e.w.mu.Unlock()
	return e.w.eng.StopWatches(ctx, name, ws...)
}
func (e *recEngine) GetCached() client.Client   { return e.c }
func (e *recEngine) GetUncached() client.Client { return e.c }

// xrClient lists XRs whose resource references name the composed kinds in w.refs.
type xrClient struct {
	client.Client
	w *world
}

func (c *xrClient) List(_ context.Context, l client.ObjectList, _ ...client.ListOption) error {
	ul, ok := l.(*unstructured.UnstructuredList)
	if !ok {
		return fmt.Errorf("unexpected list %T", l)
	}
	c.w.mu.Lock()
	refs := append([]string(nil), c.w.refs...)
	deleting := map[string]bool{}
	for _, wid := range c.w.drefs {
		deleting[wid] = true
	}
	if p := c.w.me(); p != nil && c.w.gated {
		p.info["used"] = refs
	}
	c.w.mu.Unlock()
	for n, wid := range refs {
		u := unstructured.Unstructured{}
		u.SetGroupVersionKind(xrGVK)
		u.SetName(fmt.Sprintf("xr-%d", n))
		if deleting[wid] { // deleted, but held by a finalizer: it still exists and still references its composed resources
			ts := metav1.NewTime(time.Unix(1700000000, 0))
			u.SetDeletionTimestamp(&ts)
			u.SetFinalizers([]string{"composite.apiextensions.crossplane.io"})
		}
		g := gvkOf(wid)
		_ = unstructured.SetNestedSlice(u.Object, []any{map[string]any{"apiVersion": g.GroupVersion().String(), "kind": g.Kind, "name": "x"}}, "spec", "resourceRefs")
		ul.Items = append(ul.Items, u)
	}
	c.w.gate("gc-list")
	return nil
}

func newWorld(gated bool) *world {
	w := &world{informers: map[schema.GroupVersionKind]*fakeInformer{}, running: map[string]int{}, stopped: map[int]bool{}, procs: map[int]*proc{}, byG: map[int64]*proc{}, gated: gated}
	sch := runtime.NewScheme()
	metav1.AddToGroupVersion(sch, schema.GroupVersion{Version: "v1"})
	mgr := &electedManager{Manager: &fakes.Manager{Sch: sch}, ch: make(chan struct{})}
	close(mgr.ch)
	w.infs = &gatedInfs{InformerTrackingCache: engine.TrackInformers(&fakeCache{w: w}, sch), w: w}
	w.eng = engine.New(mgr, w.infs, nil, nil)
	return w
}

type electedManager struct {
	manager.Manager
	ch chan struct{}
}

func (m *electedManager) Elected() <-chan struct{} { return m.ch }

func (w *world) newController(name string, _ manager.Manager, _ kcontroller.Options) (kcontroller.Controller, error) {
	w.mu.Lock()
	defer w.mu.Unlock()
	c := &fakeController{w: w, id: len(w.insts) + 1, name: name, started: make(chan struct{})}
	c.q = &instQueue{inst: c.id}
	w.insts = append(w.insts, c)
	return c, nil
}

// ---- operations

type step struct {
	P   int      `json:"p"`
	Op  string   `json:"op"`
	Seg int      `json:"seg"`
	C   string   `json:"c"`
	A   []string `json:"a"`
	R   string   `json:"r"`
	D   []string `json:"d"`
}

// idNumber is the trailing number of a scenario id (0 if none).
func idNumber(id string) int {
	i := len(id)
	for i > 0 && id[i-1] >= '0' && id[i-1] <= '9' {
		i--
	}
	n, _ := strconv.Atoi(id[i:])
	return n
}

func errStr(err error) string {
	if err != nil {
		return "err"
	}
	return "ok"
}

func (w *world) exec(s step) opResult {
	ctx := context.Background()
	switch s.Op {
	case "Start":
		w.mu.Lock()
		n := len(w.insts)
		w.mu.Unlock()
		err := w.eng.Start(s.C, engine.WithNewControllerFn(w.newController))
		w.mu.Lock()
		var c *fakeController
		if err == nil && len(w.insts) > n {
			c = w.insts[len(w.insts)-1]
			w.running[s.C] = c.id
		}
		w.mu.Unlock()
		if c != nil {
			select { // the engine starts the controller in a goroutine: wait until it runs so that cancellation is observable
			case <-c.started:
			case <-time.After(30 * time.Second):
			}
		}
		return opResult{r: errStr(err)}
	case "Stop":
		if s.R == "err" { // the model's StopFails: the first handler removal of this Stop fails
			w.mu.Lock()
			w.failRemove = true
			w.mu.Unlock()
		}
		err := w.eng.Stop(ctx, s.C)
		w.mu.Lock()
		w.failRemove = false
		if err == nil {
			if i := w.running[s.C]; i != 0 {
				w.stopped[i] = true
			}
			w.running[s.C] = 0
		}
		w.mu.Unlock()
		return opResult{r: errStr(err)}
	case "IsRunning":
		if w.eng.IsRunning(s.C) {
			return opResult{r: "true"}
		}
		return opResult{r: "false"}
	case "GetWatches":
		ws, err := w.eng.GetWatches(s.C)
		out := []string{}
		for _, id := range ws {
			out = append(out, widOf(id))
		}
		sort.Strings(out)
		return opResult{r: errStr(err), a: out}
	case "StartWatches":
		ws := []engine.Watch{}
		for _, wid := range s.A {
			ws = append(ws, engine.WatchFor(objOf(wid), typeOf(wid), &watchHandler{w: w, wid: wid}))
		}
		return opResult{r: errStr(w.eng.StartWatches(s.C, ws...)), a: s.A}
	case "StopWatches":
		ids := []engine.WatchID{}
		for _, wid := range s.A {
			ids = append(ids, engine.WatchID{Type: typeOf(wid), GVK: gvkOf(wid)})
		}
		_, err := w.eng.StopWatches(ctx, s.C, ids...)
		return opResult{r: errStr(err), a: s.A}
	case "GC":
		gc := watch.NewGarbageCollector(s.C, resource.CompositeKind(xrGVK), &recEngine{w: w, c: &xrClient{w: w}})
		return opResult{r: errStr(gc.GarbageCollectWatchesNow(ctx))}
	case "RemoveInformer":
		err := w.infs.RemoveInformer(ctx, objOf(s.A[0]))
		return opResult{r: errStr(err), a: s.A}
	case "CachedRead":
		// a reconciler reads an object of the kind through the tracking cache
		_ = w.infs.Get(ctx, client.ObjectKey{Name: "x"}, objOf(s.A[0]))
		return opResult{r: "ok", a: s.A}
	case "ChangeRefs":
		w.mu.Lock()
		w.refs = append([]string(nil), s.A...)
		sort.Strings(w.refs)
		w.drefs = append([]string(nil), s.D...)
		w.mu.Unlock()
		return opResult{r: "ok", a: s.A}
	}
	panic("unknown op " + s.Op)
}

// post projects the observable state of the engine's world.
func (w *world) post() map[string]any {
	activeNow := w.infs.InformerTrackingCache.ActiveInformers() // (takes the tracking cache's lock: not under w.mu)
	w.mu.Lock()
	defer w.mu.Unlock()
	regs := []any{}
	for _, wid := range []string{"xr", "rev", "cdA", "cdB", "cdC"} {
		if i, ok := w.informers[gvkOf(wid)]; ok {
			ids := make([]int, 0, len(i.regs))
			for id := range i.regs {
				ids = append(ids, id)
			}
			sort.Ints(ids)
			for _, id := range ids {
				r := i.regs[id]
				regs = append(regs, map[string]any{"inst": r.inst, "wid": r.wid, "kind": wid})
			}
		}
	}
	running := []any{}
	names := make([]string, 0, len(w.running))
	for n := range w.running {
		names = append(names, n)
	}
	sort.Strings(names)
	for _, n := range names {
		running = append(running, map[string]any{"c": n, "inst": w.running[n]})
	}
	canc, stop := []any{}, []any{}
	for _, c := range w.insts {
		if c.cancelled() {
			canc = append(canc, c.id)
		}
		// Which instances "Stop returned for" is tracked from the operations' returns in the deterministic mode.
		// Under truly concurrent stress that bookkeeping would race with the engine (it is not taken under the
		// engine's locks), so there a stopped instance is one whose context the engine cancelled.
		if (w.gated && w.stopped[c.id]) || (!w.gated && c.cancelled()) {
			stop = append(stop, c.id)
		}
	}
	act := []any{}
	for _, gvk := range activeNow {
		for _, wid := range []string{"xr", "rev", "cdA", "cdB", "cdC"} {
			if gvkOf(wid) == gvk {
				act = append(act, wid)
			}
		}
	}
	sort.Slice(act, func(i, j int) bool { return act[i].(string) < act[j].(string) })
	refs := []any{}
	for _, r := range w.refs {
		refs = append(refs, r)
	}
	infs := []any{}
	for _, wid := range []string{"cdA", "cdB", "cdC", "rev", "xr"} {
		if _, ok := w.informers[gvkOf(wid)]; ok {
			infs = append(infs, wid)
		}
	}
	return map[string]any{"regs": regs, "running": running, "cancelled": canc, "stopped": stop, "active": act, "informers": infs, "refs": refs, "ninst": len(w.insts)}
}

func strs(ss []string) []any {
	out := make([]any, len(ss))
	for i, s := range ss {
		out[i] = s
	}
	return out
}

func infoStrs(m map[string]any, k string) []any {
	if v, ok := m[k].([]string); ok {
		return strs(v)
	}
	return []any{}
}

type summary struct {
	Scenarios     int            `json:"scenarios"`
	Runs          int            `json:"runs"`
	Steps         int            `json:"steps"`
	Events        int            `json:"events"`
	Drift         int            `json:"drift"`
	DriftRuns     int            `json:"drift_runs"`
	Hung          int            `json:"hung"`
	HungRetried   int            `json:"hung_first_attempt"`
	Probes        int            `json:"atomicity_probes"`
	ProbesEntered int            `json:"atomicity_probes_entered"`
	Stress        int            `json:"stress_runs"`
	Counts        map[string]int `json:"counts"`
	Samples       []any          `json:"samples"`
}

// replay runs one TLC schedule deterministically.
// replayTwice: a schedule that does not come to rest is run a second time on a fresh world before it is reported as a
// deadlock - a starved process (the checks run many things at once) must not be taken for one.
func replayTwice(tw *trace.Writer, id string, hist []step, sum *summary, probeBase int) {
	if replay(tw, id, hist, sum, probeBase, false) {
		sum.HungRetried++
		replay(tw, id+"/again", hist, sum, probeBase, true)
	}
}

func replay(tw *trace.Writer, id string, hist []step, sum *summary, probeBase int, final bool) (hung bool) {
	tw.Boundary()
	w := newWorld(true)
	if len(hist) > 0 && hist[0].Op == "init" {
		w.refs = append([]string(nil), hist[0].A...)
		sort.Strings(w.refs)
		w.drefs = append([]string(nil), hist[0].D...)
		hist = hist[1:]
	}
	emit := func(ev string, s step, p *proc, fin bool) {
		info := map[string]any{}
		res := opResult{}
		if p != nil {
			// (a copy taken under the lock: the fakes write into it from the operations' goroutines)
			w.mu.Lock()
			for k, v := range p.info {
				info[k] = v
			}
			w.mu.Unlock()
			if fin {
				res = p.res
			}
		}
		inst := 0
		if v, ok := info["inst"].(int); ok {
			inst = v
		}
		tw.Emit(map[string]any{"ev": ev, "scenario": id, "p": s.P, "op": s.Op, "seg": s.Seg, "c": s.C, "a": strs(s.A), "fin": fin,
			"r": res.r, "ra": strs(res.a), "snapshot": infoStrs(info, "snapshot"), "lost": infoStrs(info, "lost"), "overlapped": info["overlapped"] == true, "used": infoStrs(info, "used"), "gcstop": infoStrs(info, "gcstop"),
			"inst": inst, "post": w.post()})
	}
	emit("reset", step{Op: "reset"}, nil, false)
	drift := 0
	wait := func(p *proc) (string, bool) {
		if p.pending != "" {
			at := p.pending
			p.pending = ""
			return at, true
		}
		select {
		case at := <-p.at:
			return at, true
		case <-time.After(30 * time.Second):
			return "", false
		}
	}
	releaseAt := func(p *proc, holdAt int) {
		w.mu.Lock()
		old := p.release
		p.release = make(chan struct{})
		p.holdN, p.holdAt = 0, holdAt
		w.mu.Unlock()
		close(old)
	}
	release := func(p *proc) { releaseAt(p, -1) }
	startOp := func(s step, holdAt int) *proc {
		p := &proc{id: s.P, release: make(chan struct{}), at: make(chan string, 1), info: map[string]any{}, holdAt: holdAt}
		w.mu.Lock()
		p.info["inst"] = w.running[s.C]
		if s.Op == "StartWatches" {
			// the requested watches that have no live event handler as the request begins
			lost := []string{}
			for _, wid := range s.A {
				live := false
				if inf := w.informers[gvkOf(wid)]; inf != nil {
					for _, r := range inf.regs {
						if r.inst == w.running[s.C] && r.inst != 0 && r.wid == wid {
							live = true
						}
					}
				}
				if !live {
					lost = append(lost, wid)
				}
			}
			sort.Strings(lost)
			p.info["lost"] = lost
		}
		w.procs[s.P] = p
		w.mu.Unlock()
		go func() {
			g := goid()
			w.mu.Lock()
			w.byG[g] = p
			w.mu.Unlock()
			p.res = w.exec(s)
			w.mu.Lock()
			delete(w.byG, g)
			w.mu.Unlock()
			p.at <- "done"
		}()
		return p
	}
	// Atomicity probes.  The model makes every lock-protected segment of the engine one atomic action.  To test that
	// the code still protects them, a step may be paused at one of its internal points (a call into the informers /
	// cache made inside the segment, see world.hold) while the operation that the schedule runs NEXT - of another
	// caller, and one that changes something - is started / released early.  While the segment is lock-protected
	// the other operation blocks as soon as it needs the lock: the probe times out and the schedule goes on exactly
	// as the model says (the early operation simply completes when its turn comes).  If it can run meanwhile, the
	// two now really overlap and the monitor judges the outcome.  A probe can lose an interleaving (timeout), it
	// cannot raise an alarm on its own.  Probed: every pair of StartWatches second segments of one controller, and
	// every step of one schedule in eight (scenario number; the schedule is run three more times, the internal point
	// rotating with probeBase).
	mutator := map[string]bool{"Start": true, "Stop": true, "StartWatches": true, "StopWatches": true, "GC": true, "RemoveInformer": true}
	probeAt := func(idx int, s step) int {
		if idx+1 >= len(hist) {
			return -1
		}
		n := hist[idx+1]
		if n.P == s.P || !mutator[n.Op] {
			return -1
		}
		if s.Op == "StartWatches" && s.Seg == 2 && n.Op == "StartWatches" && n.Seg == 2 && n.C == s.C {
			return 0 // the second snapshot
		}
		if probeBase >= 0 {
			return (probeBase + idx) % 3
		}
		return -1
	}
	for idx, s := range hist {
		sum.Steps++
		w.mu.Lock()
		p := w.procs[s.P]
		w.cur = s.P
		w.mu.Unlock()
		holdAt := probeAt(idx, s)
		if s.Seg == 1 {
			if p != nil && p.early {
				p.early = false // an atomicity probe started it already
			} else {
				if p != nil {
					drift++ // the model thinks this caller is idle but its previous operation is still paused: finish it first
					release(p)
					for at, ok := wait(p); ok && at != "done"; at, ok = wait(p) {
						release(p)
					}
				}
				p = startOp(s, holdAt)
			}
		} else {
			if p == nil {
				drift++ // the real operation already finished
				continue
			}
			if p.early {
				p.early = false // an atomicity probe released it already
			} else {
				releaseAt(p, holdAt)
			}
		}
		at, ok := wait(p)
		var q *proc
		blocked := false
		if ok && strings.HasPrefix(at, "gate:hold:") {
			n := hist[idx+1]
			w.mu.Lock()
			q = w.procs[n.P]
			w.mu.Unlock()
			switch {
			case n.Seg == 1 && q == nil:
				q = startOp(n, -1)
			case n.Seg != 1 && q != nil && !q.early:
				release(q)
			default:
				q = nil // the schedule and the real operations are out of step here: no probe
			}
			if q != nil {
				sum.Probes++
				q.early = true
				// Whether the two really overlapped cannot be told from the timeout (a slow start looks like a blocked
				// one), so both steps are marked: formulas that read a step's own post-state as "the state this step
				// produced" skip them; every state invariant is still judged.
				w.mu.Lock()
				p.info["overlapped"], q.info["overlapped"] = true, true
				w.mu.Unlock()
				select {
				case atq := <-q.at:
					q.pending = atq
					sum.ProbesEntered++ // the other operation ran while this one was inside its segment
				case <-time.After(30 * time.Millisecond):
					blocked = true
				}
			}
			release(p)
			at, ok = wait(p)
		}
		if ok && blocked {
			// the other operation was waiting for a lock and runs now: let it come to rest before the state is recorded
			if atq, okq := wait(q); okq {
				q.pending = atq
			}
		}
		if !ok {
			if final {
				sum.Hung++
				emit("hung", s, p, false)
			}
			fmt.Fprintf(os.Stderr, "scenario %s: step %+v did not reach a gate or finish within 10s\n", id, s)
			return true
		}
		fin := at == "done"
		if fin {
			w.mu.Lock()
			delete(w.procs, s.P)
			w.mu.Unlock()
		}
		emit("step", s, p, fin)
	}
	// let paused operations finish
	w.mu.Lock()
	rest := make([]*proc, 0, len(w.procs))
	for _, p := range w.procs {
		rest = append(rest, p)
	}
	w.mu.Unlock()
	sort.Slice(rest, func(i, j int) bool { return rest[i].id < rest[j].id })
	for _, p := range rest {
		for {
			w.mu.Lock()
			w.cur = p.id
			w.mu.Unlock()
			old := p.release
			p.release = make(chan struct{})
			close(old)
			at, ok := wait(p)
			if !ok {
				if final {
					sum.Hung++
					emit("hung", step{P: p.id, Op: "finish", Seg: 9}, p, false)
				}
				return true
			}
			if at == "done" {
				w.mu.Lock()
				delete(w.procs, p.id)
				w.mu.Unlock()
				emit("step", step{P: p.id, Op: "finish", Seg: 9}, p, true)
				break
			}
		}
	}
	sum.Runs++
	sum.Drift += drift
	if drift > 0 {
		sum.DriftRuns++
	}
	return false
}

// stress runs random operations truly concurrently and records the state at quiescence, then after stopping everything.
func stress(tw *trace.Writer, id string, rng *rand.Rand, ctrls, wids []string, procs, ops int, sum *summary) {
	tw.Boundary()
	w := newWorld(false)
	emit := func(ev string, op string) {
		tw.Emit(map[string]any{"ev": ev, "scenario": id, "p": 0, "op": op, "seg": 0, "c": "", "a": []any{}, "fin": true,
			"r": "", "ra": []any{}, "snapshot": []any{}, "used": []any{}, "gcstop": []any{}, "inst": 0, "post": w.post()})
	}
	emit("reset", "reset")
	kinds := []string{"Start", "Stop", "StartWatches", "StartWatches", "StopWatches", "GC", "RemoveInformer", "IsRunning", "GetWatches", "ChangeRefs"}
	plans := make([][]step, procs)
	for p := range plans {
		for k := 0; k < ops; k++ {
			s := step{P: p + 1, Op: kinds[rng.Intn(len(kinds))], Seg: 1, C: ctrls[rng.Intn(len(ctrls))]}
			switch s.Op {
			case "StartWatches", "StopWatches":
				for _, wd := range wids {
					if rng.Intn(2) == 0 {
						s.A = append(s.A, wd)
					}
				}
				if len(s.A) == 0 {
					s.A = []string{wids[0]}
				}
			case "RemoveInformer":
				s.A = []string{wids[rng.Intn(len(wids))]}
			case "ChangeRefs":
				for _, wd := range wids {
					if wd != "xr" && wd != "rev" && rng.Intn(2) == 0 {
						s.A = append(s.A, wd)
					}
				}
			}
			plans[p] = append(plans[p], s)
		}
	}
	var wg sync.WaitGroup
	done := make(chan struct{})
	for p := range plans {
		wg.Add(1)
		go func(plan []step) {
			defer wg.Done()
			for _, s := range plan {
				w.exec(s)
			}
		}(plans[p])
	}
	go func() { wg.Wait(); close(done) }()
	select {
	case <-done:
	case <-time.After(30 * time.Second):
		sum.Hung++
		emit("hung", "stress")
		return
	}
	emit("quiescent", "stress")
	for _, c := range ctrls {
		w.exec(step{Op: "Stop", C: c})
	}
	emit("quiescent", "stopall")
	sum.Stress++
}

func main() {
	scenarios := flag.String("scenarios", "", "NDJSON file of TLC schedules")
	tracePath := flag.String("trace", "", "output trace")
	sumPath := flag.String("summary", "", "output summary JSON")
	chunk := flag.Int("chunk", 0, "split the trace into files of about this many events")
	stressN := flag.Int("stress", 0, "number of random concurrent stress runs")
	seed := flag.Int64("seed", 1, "seed of the stress runs")
	flag.Parse()

	tw, err := trace.New(*tracePath, *chunk)
	if err != nil {
		fmt.Fprintln(os.Stderr, err)
		os.Exit(2)
	}
	sum := &summary{}
	if *scenarios != "" {
		raws, err := scen.Load(*scenarios)
		if err != nil {
			fmt.Fprintln(os.Stderr, err)
			os.Exit(2)
		}
		for _, raw := range raws {
			var sc struct {
				ID   string `json:"id"`
				Hist []step `json:"hist"`
			}
			if err := json.Unmarshal(raw, &sc); err != nil {
				fmt.Fprintln(os.Stderr, "bad scenario:", err)
				os.Exit(2)
			}
			sum.Scenarios++
			if len(sum.Samples) < 2 {
				sum.Samples = append(sum.Samples, json.RawMessage(raw))
			}
			replayTwice(tw, sc.ID, sc.Hist, sum, -1)
			if idNumber(sc.ID)%8 == 0 {
				for b := 0; b < 3; b++ {
					replayTwice(tw, fmt.Sprintf("%s/p%d", sc.ID, b), sc.Hist, sum, b)
				}
			}
			if sum.Hung >= 3 {
				fmt.Fprintln(os.Stderr, "giving up after 3 hung schedules")
				break
			}
		}
	}
	rng := rand.New(rand.NewSource(*seed))
	for i := 0; i < *stressN; i++ {
		stress(tw, fmt.Sprintf("stress-%d-%d", *seed, i), rng, []string{"c1", "c2"}, []string{"xr", "rev", "cdA", "cdB"}, 4, 6, sum)
	}
	sum.Events = tw.Lines
	sum.Counts = tw.Counts
	if err := tw.Close(); err != nil {
		fmt.Fprintln(os.Stderr, err)
		os.Exit(2)
	}
	if err := scen.WriteJSON(*sumPath, sum); err != nil {
		fmt.Fprintln(os.Stderr, err)
		os.Exit(2)
	}
	if sum.Hung > 0 {
		fmt.Fprintf(os.Stderr, "%d runs hung\n", sum.Hung)
	}
}
