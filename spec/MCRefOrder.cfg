SPECIFICATION Spec
ACTION_CONSTRAINT Emit
CHECK_DEADLOCK FALSE
INVARIANTS KeyInjective
