"""C18 - the RBAC manager grants a provider no permission beyond what is allowed.
Reference semantics: spec/RBAC.tla (Kubernetes' Den / Covers, what C18 allows);
vectors: spec/MCRBAC.tla; driver: harness/drivers/rbac (real validator, Expand,
renderers, roles / binding / definition reconcilers on simapi); judge: spec/MonRBAC.tla."""
import glob
import json
import os
import re

import vlib

PID = "C18"
MON_FORMULAS = ["Sound", "Sound.ResourceNameStar", "AllOrNone", "SystemRole", "SystemRole.Render",
                "Family.NotMember", "Family.Missed", "Binding.RoleRef", "Binding.Subjects",
                "XrdRoles", "XrdRoles.NoMore"]
INFO_FORMULAS = ["Completeness", "Drift.Granted", "Drift.Expand", "Drift.SystemRole"]
MAX_REPLAY_FILES_PER_FORMULA = 10


def regression():
    out = []
    for p in sorted(glob.glob(os.path.join(vlib.VERIF, "scenarios", PID, "*.json"))):
        with open(p) as f:
            out.append(json.load(f))
    return out


ATOMS = dict(groups=["g1", "g2", "", "*"], resources=["r1", "r1/status", "r1/finalizers", "r2", "r2/status", "*", "*/status"],
             names=["n1", "n2", "*"], verbs=["get", "update", "*"], urls=["/a", "/a/b", "/a/*", "*"])
FIELDS = ["groups", "resources", "names", "verbs", "urls"]


def random_vectors(ctx, n):
    """Seeded random validator vectors beyond the domain TLC enumerates: allow lists and requests of up to
    three rules whose fields hold up to three atoms. Allow rules are valid ClusterRole rules; about half of
    the request rules are derived from an allow rule (sub-selection, sometimes one atom changed) so that
    grants are frequent, the rest are arbitrary (possibly empty or mixed lists)."""
    rng = ctx.rng

    def pick(field, lo, hi):
        k = rng.randint(lo, min(hi, len(ATOMS[field])))
        return sorted(rng.sample(ATOMS[field], k))

    def valid_rule():
        if rng.random() < 0.25:
            return dict(groups=[], resources=[], names=[], verbs=pick("verbs", 1, 2), urls=pick("urls", 1, 3))
        return dict(groups=pick("groups", 1, 3), resources=pick("resources", 1, 3),
                    names=pick("names", 0, 2) if rng.random() < 0.5 else [], verbs=pick("verbs", 1, 2), urls=[])

    def derived(a):
        q = {}
        for f in FIELDS:
            vals = list(a[f])
            if vals and not (f == "names" and rng.random() < 0.3):
                vals = sorted(rng.sample(vals, rng.randint(1, len(vals))))
            q[f] = vals
        if rng.random() < 0.4:
            f = rng.choice([x for x in FIELDS if q[x]] or ["verbs"])
            q[f] = sorted(set(q[f][1:] + [rng.choice(ATOMS[f])]))
        if rng.random() < 0.15:
            q["names"] = []
        return q

    def arbitrary():
        return {f: (pick(f, 0, 2) if rng.random() < 0.7 else []) for f in FIELDS}

    out = []
    for i in range(n):
        allow = [valid_rule() for _ in range(rng.randint(1, 3))]
        reqs = []
        for _ in range(rng.randint(1, 3)):
            r = rng.random()
            reqs.append(derived(rng.choice(allow)) if r < 0.6 else valid_rule() if r < 0.8 else arbitrary())
        out.append({"id": "%s-rnd%d-%06d" % (PID, ctx.seed, i), "input": dict(
            fam="valr", mode="cr", allow=allow, reqs=reqs,
            self=dict(label="", src=dict(reg="R0", org="o0", form="tag"), refs=[]), members=[], pre="none",
            deps=[], prebind="none", xrd=dict(group="", plural="", claim=""))})
    return out


def info_lines(ctx):
    """INFO|<name>|<line>|<scenario> lines of the monitor runs (information, never a verdict)."""
    counts, examples = {}, {}
    for out in glob.glob(os.path.join(ctx.work, "mon*", "tlc_MonRBAC.out")):
        with open(out) as f:
            for m in re.finditer(r'^"INFO\|([^|"]+)\|(\d+)\|([^"]*)"$', f.read(), re.M):
                counts[m.group(1)] = counts.get(m.group(1), 0) + 1
                examples.setdefault(m.group(1), m.group(3))
    return counts, examples


def drive_and_judge(ctx, scs):
    by_id = {s["id"]: s for s in scs}
    sp = ctx.write_scenarios(scs)
    binp = ctx.go_build("./drivers/rbac")
    trace = os.path.join(ctx.work, "trace.ndjson")
    summ = os.path.join(ctx.work, "summary.json")
    chunk = max(500, len(scs) // 12 + 1)
    ctx.run([binp, "-scenarios", sp, "-trace", trace, "-summary", summ, "-chunk", str(chunk), "-seed", str(ctx.seed)])
    with open(summ) as f:
        s = json.load(f)
    viols, nlines = ctx.monitor("MonRBAC", trace)
    files, per_formula = {}, {}
    for formula, line, scid in sorted(viols, key=lambda v: (v[0], not v[2].startswith("C18-reg"), v[2])):
        per_formula[formula] = per_formula.get(formula, 0) + 1
        if per_formula[formula] <= MAX_REPLAY_FILES_PER_FORMULA:
            files[(formula, per_formula[formula])] = ctx.replay_file(by_id.get(scid, {"id": scid}))
            rp = files[(formula, per_formula[formula])]
        else:
            rp = files[(formula, 1)]  # more of the same formula: point at the first scenario
        ctx.violation(formula, scid, rp, "trace line %d" % line, fingerprint=formula)
    info, examples = info_lines(ctx)
    return s, nlines, per_formula, info, examples


def run(ctx):
    quick = ctx.quick
    cfg = "MCRBAC_quick.cfg" if quick else "MCRBAC_thorough.cfg"
    mc = ctx.model_check("MCRBAC", cfg, workers=8 if quick else 16, timeout=120 if quick else 1200)
    # (M) the design as read admits exactly the literal-"*"-resource-name cell: the strict formula must fail in the model
    d12 = ctx.model_check("MCRBAC", "MCRBAC_d12.cfg", sub="mc_d12", workers=1, timeout=120,
                          expect_violations=("DesignSoundStrict",))
    budget = 60000 if quick else 400000
    scs = [{"id": "%s-%07d" % (PID, i), "input": v} for i, v in ctx.sample_lines(mc["emitted_file"], budget, mc["emitted"])]
    rnd = random_vectors(ctx, 5000 if quick else 150000)
    chosen = regression() + scs + rnd
    s, nlines, per_formula, info, examples = drive_and_judge(ctx, chosen)
    samples = []
    for ev in s["samples"][:3]:
        samples.append({"scenario": ev["scenario"], "input": ev["input"],
                        "out": {k: ev["out"][k] for k in ("err", "rejected", "recErr", "writes", "roles")}})
    ctx.cov.update(dict(
        states=mc["states"] + d12["states"], transitions=mc["transitions"] + d12["transitions"],
        traces_validated_against_impl=s["runs"], samples=samples,
        model_runs={cfg: dict(states=mc["states"], transitions=mc["transitions"], vectors=mc["emitted"]),
                    "MCRBAC_d12.cfg": dict(states=d12["states"], violated=d12["violated"])},
        vectors_emitted=mc["emitted"], vectors_replayed=len(scs), regression_scenarios=len(chosen) - len(scs) - len(rnd), random_vectors=len(rnd),
        vectors_by_family=s["by_family"], antecedent_hits=s["counts"], events=nlines,
        monitor_formulas=MON_FORMULAS, violations_by_formula=per_formula,
        information=dict(counts=info, examples=examples, formulas=INFO_FORMULAS),
        drift=dict(granted=info.get("Drift.Granted", 0), expand=info.get("Drift.Expand", 0), system_role=info.get("Drift.SystemRole", 0)),
        exhaustive=(mc["emitted"] == len(scs)),
        checker_cmd="tlc MCRBAC (M,G: vectors) -> harness/drivers/rbac on /repo (T) -> tlc MonRBAC",
        rule="every emitted input vector is run through the real validator / renderers / reconcilers; one trace record per vector",
    ))
    ctx.assumptions += [
        "Kubernetes semantics (RuleAllows, Covers) are transcribed into spec/RBAC.tla from the upstream sources; resource-string and URL-prefix structure is tabulated for the bounded universe",
        "the allow-list ClusterRole satisfies API-server validation (a rule is either a resource rule or a non-resource-URL rule); requests are arbitrary",
        "C18 does not restrict verbs on a provider's own resources: SystemRole allows every verb there",
        "package references are rendered from (registry, organisation, form) facts chosen by the model; simapi stands in for the API server",
        "verdict only from outcomes of the real code judged by MonRBAC.tla; Completeness and Drift.* are information",
    ]


def replay(ctx, path):
    with open(path) as f:
        sc = json.load(f)
    s, nlines, per_formula, info, examples = drive_and_judge(ctx, [sc])
    ctx.cov.update(dict(states=1, transitions=1, traces_validated_against_impl=s["runs"], samples=[sc], events=nlines,
                        violations_by_formula=per_formula, information=dict(counts=info)))
