SPECIFICATION Spec
CONSTANTS
  RTypes = {"Provider", "Configuration"}
  Streams <- StreamsLate
  ConsIgn <- ConsFew
  Verifs <- VerifFew
  Cache0 <- CacheTwo
  MaxRecs = 3
  MaxFaults = 1
  MaxSig = 1
  MaxEnv = 1
  SrcFaults = TRUE
  StoreFaults <- AllStoreFaults
  DelFaults = FALSE
  ApiCrash = FALSE
  FixTee = TRUE
VIEW view
ACTION_CONSTRAINT Emit
CHECK_DEADLOCK FALSE
