---------------------------- MODULE MCPkgLifecycle ----------------------------
EXTENDS PkgLifecycle, Json
\* scenario emission: one line per transition that ends a reconcile (shortest history reaching it)
Emit == (nm' + nr' > nm + nr) => PrintT(<<"TRACE", ToJson(hist')>>)

Bools == {FALSE, TRUE}
OnlyFalse == {FALSE}
OnlyTrue == {TRUE}

\* ---- packages
P0 == [NoPkg EXCEPT !.ex = TRUE, !.src = "s1", !.pull = "IfNotPresent", !.rtc = "default", !.pol = "Automatic"]
PkgPlain == {P0}
\* with everything optional set (so that it can be removed)
PkgRich == {[P0 EXCEPT !.lab = "x", !.sec = "ps", !.ccr = "cc"]}
PkgBoth == PkgPlain \cup PkgRich
PkgAlways == {[P0 EXCEPT !.pull = "Always", !.sec = "ps"]}
PkgManual == {[P0 EXCEPT !.pol = "Manual"], [P0 EXCEPT !.pol = "none"]}
PkgPaused == {[P0 EXCEPT !.paused = TRUE]}
\* the package as the manager left it after installing r1
PkgInstalled == {[P0 EXCEPT !.curRev = "r1", !.curId = "s1", !.inst = "Active", !.healthy = "True"]}
PkgInstalledRich == {[P0 EXCEPT !.lab = "x", !.sec = "ps", !.ccr = "cc", !.curRev = "r1", !.curId = "s1", !.inst = "Active", !.healthy = "True"]}

\* ---- revisions
NoRevs == [r \in Revs |-> NoRev]
\* r1 as the manager creates it
Fresh(des) == [NoRev EXCEPT !.ex = TRUE, !.ctrl = "pkg", !.des = des, !.pull = "IfNotPresent", !.rtc = "default"]
\* r1 as the revision reconciler leaves it after a successful reconcile
Settled(des) == [Fresh(des) EXCEPT !.fin = TRUE, !.refs = TRUE, !.healthy = "True", !.meta = TRUE]
RevsNone == {NoRevs}
RevsFresh == {[NoRevs EXCEPT !["r1"] = Fresh("Active")]}
RevsSettled == {[NoRevs EXCEPT !["r1"] = Settled("Active")]}
RevsSettledRich == {[NoRevs EXCEPT !["r1"] = [Settled("Active") EXCEPT !.lab = "x", !.sec = "ps", !.ccr = "cc"]]}
RevsStart == RevsFresh \cup RevsSettled \cup {[NoRevs EXCEPT !["r1"] = Settled("Inactive")],
                                              [NoRevs EXCEPT !["r1"] = [Fresh("Inactive") EXCEPT !.fin = TRUE]],
                                              [NoRevs EXCEPT !["r1"] = [Settled("Active") EXCEPT !.ofin = TRUE]],
                                              [NoRevs EXCEPT !["r1"] = [Settled("Active") EXCEPT !.paused = TRUE]]}
\* r1 settled, r2 the current one: the state after a source change
RevsTwo == {[NoRevs EXCEPT !["r1"] = Settled("Active"), !["r2"] = Fresh("Active")]}
\* a revision with the derived name that another owner controls / that nobody controls
RevsForeign == {[NoRevs EXCEPT !["r1"] = [Settled("Active") EXCEPT !.ctrl = "foreign"]],
                [NoRevs EXCEPT !["r1"] = [Settled("Inactive") EXCEPT !.ctrl = "none"]],
                [NoRevs EXCEPT !["r2"] = [Settled("Active") EXCEPT !.ctrl = "foreign"]]}
\* a revision whose DeploymentRuntimeConfig does not exist / that skips dependency resolution
RevsOdd == {[NoRevs EXCEPT !["r1"] = [Fresh("Active") EXCEPT !.rtc = "missing"]],
            [NoRevs EXCEPT !["r1"] = [Fresh("Active") EXCEPT !.skip = TRUE]],
            [NoRevs EXCEPT !["r1"] = Fresh("empty")]}

\* ---- images: r1's is compatible with the running Crossplane, r2's is not (unless ...)
ImgBothOk == [r \in Revs |-> TRUE]
ImgR2Bad == [r \in Revs |-> r = "r1"]
ImgR1Bad == [r \in Revs |-> r = "r2"]

\* ---- ImageConfigs (attributes in the driver): ica short prefix, icb longer, icc ties with icb, icd longest (s1 only),
\*      icv longer than icb but without pull secret, icm several prefixes, icn matches nothing
IcNone == {{}}
IcSome == {{}, {"ica", "icb", "icv"}}
IcAll == {{"ica", "icb", "icc", "icd", "icv", "icm", "icn"}}
IcsQ == {"icb", "icd"}
IcsT == {"ica", "icb", "icc", "icd", "icv", "icm", "icn"}
NoICs == {}

\* ---- edits
E(f, v) == [f |-> f, v |-> v]
EditsSrc == {E("src", "s2"), E("src", "s1")}
EditsOpt == {E("sec", "none"), E("sec", "ps"), E("ccr", "none"), E("lab", "none"), E("lab", "y"), E("lab", "x")}
EditsFlow == {E("ign", "true"), E("skip", "true"), E("rtc", "missing"), E("pull", "Always"), E("pol", "Manual"), E("src", "s2")}
EditsAll == EditsSrc \cup EditsOpt \cup EditsFlow
NoEdits == {}

EnvPkg == {"pause", "unpause", "touch", "edit", "delpkg"}
EnvIc == {"addic", "delic"}
EnvRevUser == {"pauserev", "unpauserev", "delrev", "touch"}
EnvStandInRev == {"health"}                      \* the revision reconciler's doing, when it is not part of the configuration
EnvStandInMgr == {"deact", "act", "revign"}      \* the manager's doing, when it is not part of the configuration
EnvMgr == EnvPkg \cup EnvIc \cup EnvStandInRev
EnvRev == EnvRevUser \cup EnvStandInMgr \cup {"delpkg", "droprefs"}
EnvBoth == {"pause", "unpause", "edit", "delpkg", "pauserev", "unpauserev", "delrev"}
NoEnv == {}

FaultsAll == {"error", "conflict", "miss", "crashBefore", "crashAfter"}
FaultsNoMiss == {"error", "conflict", "crashBefore", "crashAfter"}
FaultsFew == {"error", "crashAfter"}
NoFaults == {}
SeamsAll == {"error", "conflict", "empty", "miss"}
SeamsErr == {"error"}
NoSeams == {}
\* ---- more start configurations
PkgOdd == PkgManual \cup PkgPaused \cup PkgAlways
RevsOddMgr == RevsNone \cup RevsForeign \cup RevsSettledRich
EnvGate == {"revign", "deact", "act", "droprefs", "pauserev", "unpauserev"}
EnvEdit == {"edit"}
EnvDel == {"delrev"}
OnlyMiss == {"miss"}
PkgThorough == PkgBoth \cup PkgAlways
RevsThoroughMgr == RevsNone \cup RevsSettledRich
RevsThoroughRev == RevsStart \cup RevsOdd
IcMany == {{}, {"ica", "icb", "icc", "icd", "icv", "icm", "icn"}, {"icv", "icn"}, {"icb", "icc"}, {"icm", "ica"}}
EnvIcSrc == {"addic", "delic", "edit"}
=============================================================================
