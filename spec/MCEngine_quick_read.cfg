SPECIFICATION Spec
CONSTANTS
  Ctrls = {"c1"}
  Wids = {"xr", "cdA"}
  Procs = {1, 2}
  MaxOps = 3
  MaxInst = 1
  MaxSrc = 4
  OpKinds <- ReadOps
  SWSets <- SW_a
  FixGC = TRUE
  FixSnapshot = TRUE
  FixLost = TRUE
  MaxStopFails = 0
  FixStopped = TRUE
VIEW view
ACTION_CONSTRAINT Emit
CHECK_DEADLOCK FALSE
INVARIANTS OneWatch StopClean StepProps
