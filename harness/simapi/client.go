package simapi

import (
	"context"
	"encoding/json"
	"errors"
	"fmt"
	"reflect"
	"strings"

	jsonpatch "github.com/evanphx/json-patch"
	kerrors "k8s.io/apimachinery/pkg/api/errors"
	apimeta "k8s.io/apimachinery/pkg/api/meta"
	metav1 "k8s.io/apimachinery/pkg/apis/meta/v1"
	"k8s.io/apimachinery/pkg/apis/meta/v1/unstructured"
	"k8s.io/apimachinery/pkg/runtime"
	"k8s.io/apimachinery/pkg/runtime/schema"
	"k8s.io/apimachinery/pkg/types"
	utiljson "k8s.io/apimachinery/pkg/util/json"
	"k8s.io/apimachinery/pkg/util/rand"
	"sigs.k8s.io/controller-runtime/pkg/client"
)

// ErrCrashed is returned by every call of an actor after a crashBefore /
// crashAfter decision: from the store's point of view the process is dead.
var ErrCrashed = errors.New("simapi: actor crashed (injected)")

// ErrInjected is the cause of injected server errors.
var ErrInjected = errors.New("simapi: injected server error")

// DefaultManager is the field manager recorded for writes without an explicit
// field owner (controller-runtime derives it from the binary name).
const DefaultManager = "crossplane"

// Client is a client.Client (and client.FieldIndexer) on a Server, acting as
// one actor (one controller process).
type Client struct {
	S     *Server
	Actor string

	// Intercept, if set, is consulted before every call. It may block (it is
	// the scheduler gate) and decides the call's fate.
	Intercept func(*Call) Decision

	// StaleGet, if set, may substitute an older stored version (or absence,
	// by returning nil,true) for a Get of a kind with KeepHistory.
	StaleGet func(k Key, versions []*unstructured.Unstructured) (*unstructured.Unstructured, bool)

	p *proc
}

// proc is the process a client belongs to: the per-reconcile call counter and
// the crashed flag are shared by all clients of one process (e.g. the cached
// and the uncached client of one controller).
type proc struct {
	idx  int
	dead bool
}

var (
	_ client.Client       = &Client{}
	_ client.FieldIndexer = &Client{}
)

// NewClient returns a client for the actor.
func NewClient(s *Server, actor string) *Client { return &Client{S: s, Actor: actor, p: &proc{}} }

// Sibling returns another client of the same process (shared call counter and
// crash state), e.g. the uncached client next to the cached one.
func (c *Client) Sibling(actor string) *Client {
	return &Client{S: c.S, Actor: actor, Intercept: c.Intercept, p: c.p}
}

// BeginReconcile resets the per-reconcile call counter and revives the process.
func (c *Client) BeginReconcile() { c.p.idx = 0; c.p.dead = false }

// Calls returns the number of calls issued since BeginReconcile.
func (c *Client) Calls() int { return c.p.idx }

// Dead reports whether the process crashed in this reconcile.
func (c *Client) Dead() bool { return c.p.dead }

type result struct {
	err     error
	outcome string
	pre     *unstructured.Unstructured
	post    *unstructured.Unstructured
	applied bool
	noop    bool
	removed bool
}

func (c *Client) run(verb, sub string, k Key, dry, write bool, mgr string, effect func() result, body ...*unstructured.Unstructured) error {
	s := c.S
	c.p.idx++
	ev := &Event{Actor: c.Actor, Idx: c.p.idx, Verb: verb, Sub: sub, Group: k.Group, Kind: k.Kind, NS: k.Namespace, Name: k.Name, DryRun: dry, Manager: mgr}
	finish := func(err error) error {
		s.mu.Lock()
		s.seq++
		ev.Seq = s.seq
		s.Log = append(s.Log, ev)
		cb := s.OnEvent
		s.mu.Unlock()
		if cb != nil {
			cb(ev)
		}
		return err
	}
	if c.p.dead {
		ev.Outcome = "dropped"
		return finish(ErrCrashed)
	}
	dec := Proceed
	if c.Intercept != nil {
		cl := &Call{Actor: c.Actor, Idx: c.p.idx, Verb: verb, Sub: sub, Key: k, DryRun: dry, Write: write}
		if len(body) > 0 {
			cl.Obj = body[0]
		}
		dec = c.Intercept(cl)
	}
	switch dec {
	case FailError:
		ev.Outcome, ev.Injected = "error", dec.String()
		return finish(kerrors.NewInternalError(ErrInjected))
	case FailConflict:
		ev.Injected = dec.String()
		if write {
			ev.Outcome = "conflict"
			return finish(kerrors.NewConflict(gr(k), k.Name, ErrInjected))
		}
		ev.Outcome = "error"
		return finish(kerrors.NewInternalError(ErrInjected))
	case CrashBefore:
		c.p.dead = true
		ev.Outcome, ev.Injected = "dropped", dec.String()
		return finish(ErrCrashed)
	case FailNoMatch:
		ev.Outcome, ev.Injected = "error", dec.String()
		return finish(&apimeta.NoKindMatchError{GroupKind: schema.GroupKind{Group: k.Group, Kind: k.Kind}, SearchedVersions: []string{"v1"}})
	case CacheMiss:
		if !write {
			ev.Outcome, ev.Injected = "notfound", dec.String()
			return finish(kerrors.NewNotFound(gr(k), k.Name))
		}
	}
	s.mu.Lock()
	r := effect()
	s.mu.Unlock()
	ev.Outcome = r.outcome
	if ev.Outcome == "" {
		ev.Outcome = outcomeOf(r.err)
	}
	ev.Applied, ev.Noop, ev.Removed = r.applied, r.noop, r.removed
	if write {
		ev.Pre, ev.Post = info(r.pre), info(r.post)
		ev.PreObj, ev.PostObj = r.pre, r.post
	}
	if dec == CrashAfter {
		c.p.dead = true
		ev.Injected = dec.String()
		return finish(ErrCrashed)
	}
	return finish(r.err)
}

func outcomeOf(err error) string {
	switch {
	case err == nil:
		return "ok"
	case kerrors.IsNotFound(err):
		return "notfound"
	case kerrors.IsAlreadyExists(err):
		return "exists"
	case kerrors.IsConflict(err):
		return "conflict"
	case kerrors.IsInvalid(err):
		return "invalid"
	case kerrors.IsForbidden(err):
		return "denied"
	}
	return "error"
}

func (c *Client) keyFor(obj runtime.Object, name, ns string) (Key, schema.GroupVersionKind, error) {
	gvk, err := c.S.gvkFor(obj)
	if err != nil {
		return Key{}, gvk, err
	}
	if !c.S.namespaced[gvk.GroupKind()] {
		ns = ""
	}
	return Key{Group: gvk.Group, Kind: gvk.Kind, Namespace: ns, Name: name}, gvk, nil
}

// normalise returns the object as canonical unstructured JSON (int64 for
// integral numbers), so that deep equality means JSON equality.
func normalise(u *unstructured.Unstructured) (*unstructured.Unstructured, error) {
	b, err := json.Marshal(u.Object)
	if err != nil {
		return nil, err
	}
	m := map[string]any{}
	if err := utiljson.Unmarshal(b, &m); err != nil {
		return nil, err
	}
	return &unstructured.Unstructured{Object: m}, nil
}

func (c *Client) incoming(obj runtime.Object) (*unstructured.Unstructured, Key, schema.GroupVersionKind, error) {
	u, err := c.S.toUnstructured(obj)
	if err != nil {
		return nil, Key{}, schema.GroupVersionKind{}, err
	}
	gvk, err := c.S.gvkFor(obj)
	if err != nil {
		return nil, Key{}, gvk, err
	}
	u.SetGroupVersionKind(gvk)
	if u, err = normalise(u); err != nil {
		return nil, Key{}, gvk, err
	}
	if !c.S.namespaced[gvk.GroupKind()] {
		u.SetNamespace("")
	}
	return u, KeyOf(u), gvk, nil
}

// ---- reads ----

// Get implements client.Reader.
func (c *Client) Get(_ context.Context, key client.ObjectKey, obj client.Object, _ ...client.GetOption) error {
	k, gvk, err := c.keyFor(obj, key.Name, key.Namespace)
	if err != nil {
		return err
	}
	return c.run("get", "", k, false, false, "", func() result {
		o, ok := c.S.objs[k]
		if c.StaleGet != nil && c.S.keepHist[k.GK()] {
			if so, use := c.StaleGet(k, c.S.hist[k]); use {
				o, ok = so, so != nil
			}
		}
		if !ok {
			return result{err: kerrors.NewNotFound(gr(k), k.Name)}
		}
		return result{err: c.S.into(o, gvk, obj)}
	})
}

// List implements client.Reader.
func (c *Client) List(_ context.Context, list client.ObjectList, opts ...client.ListOption) error {
	lo := &client.ListOptions{}
	lo.ApplyOptions(opts)
	lgvk, err := c.S.gvkFor(list)
	if err != nil {
		return err
	}
	gvk := lgvk
	gvk.Kind = strings.TrimSuffix(gvk.Kind, "List")
	k := Key{Group: gvk.Group, Kind: gvk.Kind, Namespace: lo.Namespace}
	return c.run("list", "", k, false, false, "", func() result {
		var items []*unstructured.Unstructured
		for _, ok := range c.S.keysLocked() {
			if ok.GK() != gvk.GroupKind() {
				continue
			}
			o := c.S.objs[ok]
			if lo.Namespace != "" && o.GetNamespace() != lo.Namespace {
				continue
			}
			if lo.LabelSelector != nil && !lo.LabelSelector.Matches(labelsOf(o)) {
				continue
			}
			if lo.FieldSelector != nil && !lo.FieldSelector.Empty() {
				match, err := c.S.matchFields(o, gvk, lo)
				if err != nil {
					return result{err: err}
				}
				if !match {
					continue
				}
			}
			items = append(items, o)
		}
		return result{err: c.S.fillList(list, gvk, items)}
	})
}

type labelsOf2 map[string]string

func (l labelsOf2) Has(k string) bool   { _, ok := l[k]; return ok }
func (l labelsOf2) Get(k string) string { return l[k] }

func labelsOf(o *unstructured.Unstructured) labelsOf2 { return labelsOf2(o.GetLabels()) }

func (s *Server) matchFields(o *unstructured.Unstructured, gvk schema.GroupVersionKind, lo *client.ListOptions) (bool, error) {
	for _, req := range lo.FieldSelector.Requirements() {
		switch req.Field {
		case "metadata.name":
			if o.GetName() != req.Value {
				return false, nil
			}
			continue
		case "metadata.namespace":
			if o.GetNamespace() != req.Value {
				return false, nil
			}
			continue
		}
		fn, ok := s.indexers[gvk.GroupKind()][req.Field]
		if !ok {
			return false, fmt.Errorf("simapi: no index %q registered for %s", req.Field, gvk.GroupKind())
		}
		// present the object to the indexer the way the informer would: typed if registered
		var io client.Object
		if s.Scheme.Recognizes(gvk) {
			t, err := s.Scheme.New(gvk)
			if err != nil {
				return false, err
			}
			io = t.(client.Object)
			if err := s.into(o, gvk, io); err != nil {
				return false, err
			}
		} else {
			c := o.DeepCopy()
			c.SetGroupVersionKind(gvk)
			io = c
		}
		if !hasString(fn(io), req.Value) {
			return false, nil
		}
	}
	return true, nil
}

func (s *Server) fillList(list client.ObjectList, gvk schema.GroupVersionKind, items []*unstructured.Unstructured) error {
	if ul, ok := list.(*unstructured.UnstructuredList); ok {
		ul.Items = ul.Items[:0]
		for _, o := range items {
			c := o.DeepCopy()
			c.SetGroupVersionKind(gvk)
			ul.Items = append(ul.Items, *c)
		}
		return nil
	}
	if w, ok := list.(interface {
		GetUnstructuredList() *unstructured.UnstructuredList
	}); ok {
		ul := w.GetUnstructuredList()
		ul.Items = ul.Items[:0]
		for _, o := range items {
			c := o.DeepCopy()
			c.SetGroupVersionKind(gvk)
			ul.Items = append(ul.Items, *c)
		}
		return nil
	}
	objs := make([]runtime.Object, 0, len(items))
	for _, o := range items {
		t, err := s.Scheme.New(gvk)
		if err != nil {
			return err
		}
		if err := s.into(o, gvk, t); err != nil {
			return err
		}
		objs = append(objs, t)
	}
	return apimeta.SetList(list, objs)
}

// ---- writes ----

func isDry(d []string) bool { return len(d) > 0 }

func mgrOr(m string) string {
	if m == "" {
		return DefaultManager
	}
	return m
}

// validate enforces the API server rules the properties rely on.
func (s *Server) validate(verb string, k Key, u *unstructured.Unstructured) error {
	n := 0
	seen := map[types.UID]bool{}
	for _, or := range u.GetOwnerReferences() {
		if or.Controller != nil && *or.Controller {
			n++
		}
		if seen[or.UID] {
			return invalid(k, "duplicate owner reference uid")
		}
		seen[or.UID] = true
	}
	if n > 1 {
		return invalid(k, "Only one reference can have Controller set to true")
	}
	if s.Reject != nil {
		if err := s.Reject(verb, u); err != nil {
			return err
		}
	}
	return nil
}

func stripTimes(u *unstructured.Unstructured) map[string]any {
	c := u.DeepCopy()
	mfs := c.GetManagedFields()
	for i := range mfs {
		mfs[i].Time = nil
	}
	c.SetManagedFields(mfs)
	c.SetResourceVersion("")
	c.SetGeneration(0)
	return c.Object
}

// noGeneration: built-in kinds for which the API server keeps no metadata.generation (it stays 0 however often
// the object is edited) - a controller must not use it to detect their changes.
var noGeneration = map[schema.GroupKind]bool{
	{Group: "rbac.authorization.k8s.io", Kind: "ClusterRole"}:        true,
	{Group: "rbac.authorization.k8s.io", Kind: "ClusterRoleBinding"}: true,
	{Group: "rbac.authorization.k8s.io", Kind: "Role"}:               true,
	{Group: "rbac.authorization.k8s.io", Kind: "RoleBinding"}:        true,
	{Group: "", Kind: "Secret"}:                                      true,
	{Group: "", Kind: "ConfigMap"}:                                   true,
	{Group: "", Kind: "ServiceAccount"}:                              true,
	{Group: "", Kind: "Service"}:                                     true,
	{Group: "", Kind: "Namespace"}:                                   true,
}

func sameContent(a, b *unstructured.Unstructured) bool {
	return reflect.DeepEqual(stripTimes(a), stripTimes(b))
}

func specOf(u *unstructured.Unstructured) map[string]any {
	m := map[string]any{}
	for k, v := range u.Object {
		if k != "metadata" && k != "status" {
			m[k] = v
		}
	}
	return m
}

// commit stores n as the successor of live (live may be nil for a create),
// implementing NoOp, Finalized and generation bumps. Caller holds the lock.
func (s *Server) commit(k Key, live, n *unstructured.Unstructured, dry bool) result {
	if live != nil {
		n.SetUID(live.GetUID())
		n.SetCreationTimestamp(live.GetCreationTimestamp())
		n.SetDeletionTimestamp(live.GetDeletionTimestamp())
		n.SetDeletionGracePeriodSeconds(live.GetDeletionGracePeriodSeconds())
		n.SetGeneration(live.GetGeneration())
		if sameContent(live, n) {
			return result{pre: live.DeepCopy(), post: live.DeepCopy(), noop: true}
		}
		if !reflect.DeepEqual(specOf(live), specOf(n)) && !noGeneration[k.GK()] {
			n.SetGeneration(live.GetGeneration() + 1)
		}
		if n.GetDeletionTimestamp() != nil && len(n.GetFinalizers()) == 0 {
			if !dry {
				s.remove(k)
			}
			return result{pre: live.DeepCopy(), post: nil, applied: true, removed: true}
		}
	}
	if dry {
		n.SetResourceVersion(s.objRV(live))
		return result{pre: copyOrNil(live), post: n.DeepCopy(), applied: true}
	}
	n.SetResourceVersion(s.nextRV())
	s.store(k, n)
	return result{pre: copyOrNil(live), post: n.DeepCopy(), applied: true}
}

func (s *Server) objRV(u *unstructured.Unstructured) string {
	if u == nil {
		return ""
	}
	return u.GetResourceVersion()
}

func copyOrNil(u *unstructured.Unstructured) *unstructured.Unstructured {
	if u == nil {
		return nil
	}
	return u.DeepCopy()
}

func (s *Server) hasStatus(gk schema.GroupKind) bool { return !s.noStatus[gk] }

func setOrDelete(m map[string]any, key string, v any, ok bool) {
	if ok {
		m[key] = v
	} else {
		delete(m, key)
	}
}

// Create implements client.Writer.
func (c *Client) Create(_ context.Context, obj client.Object, opts ...client.CreateOption) error {
	co := &client.CreateOptions{}
	co.ApplyOptions(opts)
	u, k, gvk, err := c.incoming(obj)
	if err != nil {
		return err
	}
	mgr := mgrOr(co.FieldManager)
	dry := isDry(co.DryRun)
	if k.Name == "" && u.GetGenerateName() != "" {
		u.SetName(u.GetGenerateName() + rand.String(5))
		k = KeyOf(u)
	}
	return c.run("create", "", k, dry, true, mgr, func() result {
		s := c.S
		if k.Name == "" {
			return result{err: invalid(k, "name or generateName is required")}
		}
		if _, ok := s.objs[k]; ok {
			return result{err: kerrors.NewAlreadyExists(gr(k), k.Name)}
		}
		if u.GetResourceVersion() != "" {
			return result{err: kerrors.NewBadRequest("resourceVersion should not be set on objects to be created")}
		}
		if s.hasStatus(k.GK()) {
			delete(u.Object, "status")
		}
		u.SetUID(s.nextUID())
		u.SetCreationTimestamp(metav1.NewTime(s.tick()))
		u.SetGeneration(1)
		if noGeneration[k.GK()] {
			u.SetGeneration(0)
		}
		u.SetDeletionTimestamp(nil)
		if err := s.validate("create", k, u); err != nil {
			return result{err: err}
		}
		empty, _ := creater{}.New(gvk)
		no, err := s.fieldManager(gvk, "").Update(empty, u, mgr)
		if err != nil {
			return result{err: err}
		}
		r := s.commit(k, nil, no.(*unstructured.Unstructured), dry)
		if r.err == nil {
			r.err = s.into(r.post, gvk, obj)
		}
		return r
	}, u)
}

// update is shared by Update, Status().Update and the non-apply patches: n is
// the full new object as the request body would have it.
func (c *Client) update(verb, sub string, k Key, gvk schema.GroupVersionKind, n *unstructured.Unstructured, mgr string, dry bool, obj client.Object) result {
	s := c.S
	live, ok := s.objs[k]
	if !ok {
		return result{err: kerrors.NewNotFound(gr(k), k.Name)}
	}
	if rv := n.GetResourceVersion(); rv != "" && rv != live.GetResourceVersion() {
		return result{err: kerrors.NewConflict(gr(k), k.Name, errors.New("the object has been modified; please apply your changes to the latest version and try again")), pre: live.DeepCopy(), post: live.DeepCopy()}
	}
	if uid := n.GetUID(); uid != "" && uid != live.GetUID() {
		return result{err: kerrors.NewConflict(gr(k), k.Name, fmt.Errorf("Precondition failed: UID in precondition: %v, UID in object meta: %v", uid, live.GetUID())), pre: live.DeepCopy(), post: live.DeepCopy()}
	}
	n.SetGroupVersionKind(gvk)
	liveV := live.DeepCopy()
	liveV.SetGroupVersionKind(gvk)
	if sub == "status" {
		st, has := n.Object["status"]
		mf := n.GetManagedFields()
		n = liveV.DeepCopy()
		n.SetManagedFields(mf)
		setOrDelete(n.Object, "status", st, has)
	} else if s.hasStatus(k.GK()) {
		st, has := liveV.Object["status"]
		setOrDelete(n.Object, "status", st, has)
	}
	if err := s.validate(verb, k, n); err != nil {
		return result{err: err, pre: live.DeepCopy(), post: live.DeepCopy()}
	}
	no, err := s.fieldManager(gvk, sub).Update(liveV, n, mgr)
	if err != nil {
		return result{err: err}
	}
	r := s.commit(k, live, no.(*unstructured.Unstructured), dry)
	if r.err == nil && r.post != nil {
		r.err = s.into(r.post, gvk, obj)
	}
	return r
}

// Update implements client.Writer.
func (c *Client) Update(_ context.Context, obj client.Object, opts ...client.UpdateOption) error {
	uo := &client.UpdateOptions{}
	uo.ApplyOptions(opts)
	return c.doUpdate("", obj, mgrOr(uo.FieldManager), isDry(uo.DryRun))
}

func (c *Client) doUpdate(sub string, obj client.Object, mgr string, dry bool) error {
	u, k, gvk, err := c.incoming(obj)
	if err != nil {
		return err
	}
	return c.run("update", sub, k, dry, true, mgr, func() result {
		return c.update("update", sub, k, gvk, u, mgr, dry, obj)
	}, u)
}

// Patch implements client.Writer.
func (c *Client) Patch(_ context.Context, obj client.Object, p client.Patch, opts ...client.PatchOption) error {
	po := &client.PatchOptions{}
	po.ApplyOptions(opts)
	force := po.Force != nil && *po.Force
	return c.doPatch("", obj, p, mgrOr(po.FieldManager), po.FieldManager, force, isDry(po.DryRun))
}

func (c *Client) doPatch(sub string, obj client.Object, p client.Patch, mgr, rawMgr string, force, dry bool) error {
	_, k, gvk, err := c.incoming(obj)
	if err != nil {
		return err
	}
	data, err := p.Data(obj)
	if err != nil {
		return err
	}
	verb := "patch-" + map[types.PatchType]string{types.MergePatchType: "merge", types.JSONPatchType: "json", types.ApplyPatchType: "apply", types.StrategicMergePatchType: "strategic"}[p.Type()]
	return c.run(verb, sub, k, dry, true, mgr, func() result {
		s := c.S
		live, exists := s.objs[k]
		switch p.Type() {
		case types.ApplyPatchType:
			if rawMgr == "" {
				return result{err: kerrors.NewBadRequest("PatchOptions.meta.k8s.io is invalid: fieldManager: Required value: is required for apply patch")}
			}
			return c.apply(sub, k, gvk, data, mgr, force, dry, obj)
		case types.MergePatchType, types.JSONPatchType:
			if !exists {
				return result{err: kerrors.NewNotFound(gr(k), k.Name)}
			}
			liveV := live.DeepCopy()
			liveV.SetGroupVersionKind(gvk)
			lb, err := json.Marshal(liveV.Object)
			if err != nil {
				return result{err: err}
			}
			var nb []byte
			if p.Type() == types.MergePatchType {
				nb, err = jsonpatch.MergePatch(lb, data)
			} else {
				var jp jsonpatch.Patch
				if jp, err = jsonpatch.DecodePatch(data); err == nil {
					nb, err = jp.Apply(lb)
				}
			}
			if err != nil {
				return result{err: kerrors.NewBadRequest(err.Error())}
			}
			m := map[string]any{}
			if err := utiljson.Unmarshal(nb, &m); err != nil {
				return result{err: kerrors.NewBadRequest(err.Error())}
			}
			n := &unstructured.Unstructured{Object: m}
			if n.GetName() != k.Name {
				return result{err: kerrors.NewBadRequest("the name of the object does not match the name on the URL")}
			}
			return c.update(verb, sub, k, gvk, n, mgr, dry, obj)
		}
		return result{err: kerrors.NewBadRequest("simapi: unsupported patch type " + string(p.Type()))}
	})
}

func (c *Client) apply(sub string, k Key, gvk schema.GroupVersionKind, data []byte, mgr string, force, dry bool, obj client.Object) result {
	s := c.S
	m := map[string]any{}
	if err := utiljson.Unmarshal(data, &m); err != nil {
		return result{err: kerrors.NewBadRequest(err.Error())}
	}
	a := &unstructured.Unstructured{Object: m}
	a.SetGroupVersionKind(gvk)
	if !s.namespaced[gvk.GroupKind()] {
		a.SetNamespace("")
	}
	if a.GetManagedFields() != nil {
		return result{err: kerrors.NewBadRequest("metadata.managedFields must be nil")}
	}
	live, exists := s.objs[k]
	if !exists {
		if sub != "" {
			return result{err: kerrors.NewNotFound(gr(k), k.Name)}
		}
		if uid := a.GetUID(); uid != "" {
			return result{err: kerrors.NewConflict(gr(k), k.Name, fmt.Errorf("uid mismatch: the provided object specified uid %s, and no existing object was found", uid))}
		}
		if a.GetResourceVersion() != "" {
			return result{err: kerrors.NewConflict(gr(k), k.Name, errors.New("resourceVersion set on an object that does not exist"))}
		}
		empty, _ := creater{}.New(gvk)
		no, err := s.fieldManager(gvk, "").Apply(empty, a, mgr, force)
		if err != nil {
			return result{err: err}
		}
		n := no.(*unstructured.Unstructured)
		if s.hasStatus(k.GK()) {
			delete(n.Object, "status")
		}
		n.SetUID(s.nextUID())
		n.SetCreationTimestamp(metav1.NewTime(s.tick()))
		n.SetGeneration(1)
		if noGeneration[k.GK()] {
			n.SetGeneration(0)
		}
		if err := s.validate("patch-apply", k, n); err != nil {
			return result{err: err}
		}
		r := s.commit(k, nil, n, dry)
		if r.err == nil {
			r.err = s.into(r.post, gvk, obj)
		}
		return r
	}
	if rv := a.GetResourceVersion(); rv != "" && rv != live.GetResourceVersion() {
		return result{err: kerrors.NewConflict(gr(k), k.Name, errors.New("the object has been modified; please apply your changes to the latest version and try again")), pre: live.DeepCopy(), post: live.DeepCopy()}
	}
	if uid := a.GetUID(); uid != "" && uid != live.GetUID() {
		return result{err: kerrors.NewConflict(gr(k), k.Name, fmt.Errorf("Precondition failed: UID in precondition: %v, UID in object meta: %v", uid, live.GetUID())), pre: live.DeepCopy(), post: live.DeepCopy()}
	}
	liveV := live.DeepCopy()
	liveV.SetGroupVersionKind(gvk)
	no, err := s.fieldManager(gvk, sub).Apply(liveV, a, mgr, force)
	if err != nil {
		return result{err: err, pre: live.DeepCopy(), post: live.DeepCopy()}
	}
	n := no.(*unstructured.Unstructured)
	if sub == "status" {
		st, has := n.Object["status"]
		mf := n.GetManagedFields()
		n = liveV.DeepCopy()
		n.SetManagedFields(mf)
		setOrDelete(n.Object, "status", st, has)
	} else if s.hasStatus(k.GK()) {
		st, has := liveV.Object["status"]
		setOrDelete(n.Object, "status", st, has)
	}
	n.SetResourceVersion("")
	if err := s.validate("patch-apply", k, n); err != nil {
		return result{err: err, pre: live.DeepCopy(), post: live.DeepCopy()}
	}
	r := s.commit(k, live, n, dry)
	if r.err == nil && r.post != nil {
		r.err = s.into(r.post, gvk, obj)
	}
	return r
}

// Delete implements client.Writer.
func (c *Client) Delete(_ context.Context, obj client.Object, opts ...client.DeleteOption) error {
	do := &client.DeleteOptions{}
	do.ApplyOptions(opts)
	_, k, _, err := c.incoming(obj)
	if err != nil {
		return err
	}
	dry := isDry(do.DryRun)
	return c.run("delete", "", k, dry, true, "", func() result { return c.S.delete(k, do, dry) })
}

func (s *Server) delete(k Key, do *client.DeleteOptions, dry bool) result {
	live, ok := s.objs[k]
	if !ok {
		return result{err: kerrors.NewNotFound(gr(k), k.Name)}
	}
	pre := live.DeepCopy()
	if p := do.Preconditions; p != nil {
		if p.UID != nil && *p.UID != live.GetUID() {
			return result{err: kerrors.NewConflict(gr(k), k.Name, errors.New("Precondition failed: UID")), pre: pre, post: pre}
		}
		if p.ResourceVersion != nil && *p.ResourceVersion != live.GetResourceVersion() {
			return result{err: kerrors.NewConflict(gr(k), k.Name, errors.New("Precondition failed: ResourceVersion")), pre: pre, post: pre}
		}
	}
	if s.DeleteAdmission != nil && !dry {
		// the webhook is called without the store lock: it reads through a client
		adm := s.DeleteAdmission
		s.mu.Unlock()
		err := adm(pre.DeepCopy(), do)
		s.mu.Lock()
		if err != nil {
			post := copyOrNil(s.objs[k])
			return result{err: err, outcome: "denied", pre: pre, post: post}
		}
		if live, ok = s.objs[k]; !ok {
			return result{err: kerrors.NewNotFound(gr(k), k.Name)}
		}
	}
	n := live.DeepCopy()
	if do.PropagationPolicy != nil && *do.PropagationPolicy == metav1.DeletePropagationForeground && !hasString(n.GetFinalizers(), metav1.FinalizerDeleteDependents) {
		n.SetFinalizers(append(n.GetFinalizers(), metav1.FinalizerDeleteDependents))
	}
	if len(n.GetFinalizers()) == 0 {
		if !dry {
			s.remove(k)
		}
		return result{pre: pre, applied: true, removed: true}
	}
	if n.GetDeletionTimestamp() != nil && reflect.DeepEqual(n.Object, live.Object) {
		return result{pre: pre, post: pre, noop: true}
	}
	if n.GetDeletionTimestamp() == nil {
		t := metav1.NewTime(s.tick())
		n.SetDeletionTimestamp(&t)
	}
	if dry {
		return result{pre: pre, post: n, applied: true}
	}
	n.SetResourceVersion(s.nextRV())
	s.store(k, n)
	return result{pre: pre, post: n.DeepCopy(), applied: true}
}

// DeleteAllOf implements client.Writer.
func (c *Client) DeleteAllOf(_ context.Context, obj client.Object, opts ...client.DeleteAllOfOption) error {
	do := &client.DeleteAllOfOptions{}
	do.ApplyOptions(opts)
	gvk, err := c.S.gvkFor(obj)
	if err != nil {
		return err
	}
	k := Key{Group: gvk.Group, Kind: gvk.Kind, Namespace: do.Namespace}
	dry := isDry(do.DeleteOptions.DryRun)
	return c.run("deleteallof", "", k, dry, true, "", func() result {
		s := c.S
		any := false
		for _, ok := range s.keysLocked() {
			if ok.GK() != gvk.GroupKind() {
				continue
			}
			o := s.objs[ok]
			if do.Namespace != "" && o.GetNamespace() != do.Namespace {
				continue
			}
			if do.LabelSelector != nil && !do.LabelSelector.Matches(labelsOf(o)) {
				continue
			}
			r := s.delete(ok, &do.DeleteOptions, dry)
			if r.err != nil && !kerrors.IsNotFound(r.err) {
				return result{err: r.err, applied: any}
			}
			any = any || r.applied
		}
		return result{applied: any}
	})
}

// ---- sub-resources ----

type subWriter struct {
	c   *Client
	sub string
}

// Status implements client.StatusClient.
func (c *Client) Status() client.SubResourceWriter { return &subWriter{c: c, sub: "status"} }

// SubResource implements client.SubResourceClientConstructor.
func (c *Client) SubResource(sub string) client.SubResourceClient {
	return &subClient{subWriter{c: c, sub: sub}}
}

type subClient struct{ subWriter }

func (s *subClient) Get(context.Context, client.Object, client.Object, ...client.SubResourceGetOption) error {
	return errors.New("simapi: subresource get not supported")
}

func (w *subWriter) Create(context.Context, client.Object, client.Object, ...client.SubResourceCreateOption) error {
	return errors.New("simapi: subresource create not supported")
}

func (w *subWriter) Update(_ context.Context, obj client.Object, opts ...client.SubResourceUpdateOption) error {
	uo := &client.SubResourceUpdateOptions{}
	uo.ApplyOptions(opts)
	return w.c.doUpdate(w.sub, obj, mgrOr(uo.FieldManager), isDry(uo.DryRun))
}

func (w *subWriter) Patch(_ context.Context, obj client.Object, p client.Patch, opts ...client.SubResourcePatchOption) error {
	po := &client.SubResourcePatchOptions{}
	po.ApplyOptions(opts)
	force := po.Force != nil && *po.Force
	return w.c.doPatch(w.sub, obj, p, mgrOr(po.FieldManager), po.FieldManager, force, isDry(po.DryRun))
}

// ---- misc client.Client ----

// Scheme implements client.Client.
func (c *Client) Scheme() *runtime.Scheme { return c.S.Scheme }

// RESTMapper implements client.Client.
func (c *Client) RESTMapper() apimeta.RESTMapper { return nil }

// GroupVersionKindFor implements client.Client.
func (c *Client) GroupVersionKindFor(obj runtime.Object) (schema.GroupVersionKind, error) {
	return c.S.gvkFor(obj)
}

// IsObjectNamespaced implements client.Client.
func (c *Client) IsObjectNamespaced(obj runtime.Object) (bool, error) {
	gvk, err := c.S.gvkFor(obj)
	if err != nil {
		return false, err
	}
	return c.S.namespaced[gvk.GroupKind()], nil
}

// IndexField implements client.FieldIndexer.
func (c *Client) IndexField(_ context.Context, obj client.Object, field string, fn client.IndexerFunc) error {
	gvk, err := c.S.gvkFor(obj)
	if err != nil {
		return err
	}
	c.S.mu.Lock()
	defer c.S.mu.Unlock()
	if c.S.indexers[gvk.GroupKind()] == nil {
		c.S.indexers[gvk.GroupKind()] = map[string]client.IndexerFunc{}
	}
	c.S.indexers[gvk.GroupKind()][field] = fn
	return nil
}
