"""X03 - the life cycle of a composite resource around composing (extension beyond C01..C20).
Pause, deletion, finalizer, Composition selection (reference / selector / XRD default / XRD enforced / compositeTypeRef),
Configure (naming label, connection secret reference), early exits (conditions, events, requeue), repair after faults.
Model: spec/XRLifecycle.tla; driver: harness/drivers/xrlifecycle (real composite.Reconciler in the wiring of
definition.Reconciler.CompositeReconcilerOptions, stub Composer); monitor: spec/MonXRLifecycle.tla."""
import glob
import json
import os

import vlib

PID = "X03"
MODULE = "MCXRLifecycle"
# (cfg suffix, scenarios replayed) per tier
QUICK = [("quick", 700), ("quick_sel", 800), ("quick_user", 350), ("quick_world", 350)]
THOROUGH = [("thorough", 30000), ("thorough_b", 14000), ("thorough_f2", 10000), ("quick", 6459), ("quick_sel", 6000), ("quick_user", 7660), ("quick_world", 7133)]
# witness cfgs: a guard of the model switched off must violate the named invariant (anti-vacuity at model level)
WITNESS = [("witness_finfirst", ["FinBeforeCompose"]), ("witness_rvcheck", ["StepProps"])]

MON_FORMULAS = [
    "Paused.OnlyStatus", "Paused.Calls", "Paused.Condition", "Paused.Exit", "Status.OnlyStatus",
    "Deleting.NoCompose", "Deleting.Calls", "Deleting.WritesOnlyXR", "Deleting.OnlyFinalizer", "Deleting.UnpublishFirst",
    "Deleting.Condition", "Deleting.Condition.AfterFinalizerRemoval", "Finalizer.Kept", "Finalizer.BeforeCompose", "Finalizer.BeforePublish",
    "Select.RefStable", "Select.Enforced", "Select.Default", "Select.Compatible",
    "Compose.Ref", "Compose.Compatible", "Compose.Valid", "Compose.Configured", "Compose.NotPaused",
    "Configure.LabelKept", "Configure.SecretRefKept", "Configure.LabelIsName", "Configure.SecretRefDerived",
    "Configure.UserFieldsKept", "Quiescent", "Quiescent.AfterFinalizerRemoval",
    "Exit.SyncedTrueNeedsCompose", "Exit.SyncedFalse", "Exit.Reason.Call", "Exit.Reason.State", "Exit.Event", "Exit.Silent",
    "Requeue.Gone", "Requeue.Poll", "Requeue.Unready", "Requeue.Deleted", "Requeue.OnFailure",
    "Repair.Paused", "Repair.Deleted", "Repair.Composes", "Repair.Reason",
]


def regression():
    out = []
    for p in sorted(glob.glob(os.path.join(vlib.VERIF, "scenarios", PID, "*.json"))):
        with open(p) as f:
            out.append(json.load(f))
    return out


def build(ctx):
    """go build of the driver; VERIF_X03_OVERLAY = a `go build -overlay` file (used by checks/x03_selftest.py for
    scratch mutants of the code under test; nothing is written to /repo)."""
    ov = os.environ.get("VERIF_X03_OVERLAY")
    if not ov:
        return ctx.go_build("./drivers/xrlifecycle")
    import shutil
    import subprocess
    bindir = os.path.join(ctx.work, "bin")
    os.makedirs(bindir, exist_ok=True)
    out = os.path.join(bindir, "xrlifecycle")
    e = dict(os.environ)
    e.update(vlib.GOENV)
    shutil.copy("/repo/go.sum", os.path.join(vlib.HARNESS, "go.sum"))
    p = subprocess.run(["go", "build", "-overlay", ov, "-o", out, "./drivers/xrlifecycle"], cwd=vlib.HARNESS, env=e,
                       stdout=subprocess.PIPE, stderr=subprocess.STDOUT, text=True)
    if p.returncode != 0:
        raise vlib.Inconclusive("harness does not build with overlay %s:\n%s" % (ov, p.stdout[-3000:]))
    return out


def expand_id(by_id, scid):
    parts = scid.split("/")
    base = dict(by_id.get(parts[0], {"id": parts[0]}))
    base["id"] = scid
    for p in parts[1:]:
        if p.startswith("sweep-"):
            _, r, k, o = p.split("-")
            base["sweep"] = {"rec": int(r[1:]), "idx": int(k[1:]), "outcome": o}
    return base


def hit_counts(prefix):
    """How often the things the formulas talk about occur in the recorded traces (anti-vacuity; not part of the verdict)."""
    d = os.path.dirname(prefix)
    c = {}

    def inc(k):
        c[k] = c.get(k, 0) + 1
    for fn in sorted(os.listdir(d)):
        if not fn.startswith(os.path.basename(prefix)):
            continue
        with open(os.path.join(d, fn)) as f:
            for line in f:
                e = json.loads(line)
                ev, seen, x = e["ev"], e["seen"], e["post"]["xr"]
                if ev == "compose":
                    inc("compose:" + e["outcome"])
                if ev == "unpublish":
                    inc("unpublish:" + e["outcome"])
                if ev == "call":
                    if e["injected"]:
                        inc("injected:" + e["injected"])
                    if e["applied"] and not e["noop"]:
                        inc("write:" + e["abs"].split(":")[0] + ":" + e["kind"])
                        if seen["got"] and seen["paused"]:
                            inc("write-by-reconcile-that-saw-paused")
                        if seen["got"] and seen["del"]:
                            inc("write-by-reconcile-that-saw-deleting")
                    if e["abs"] == "status:xr" and e["outcome"] == "ok":
                        inc("status:" + x["synced"] + ":" + x["step"] + (":" + x["detail"] if x["detail"] != "none" else ""))
                    if e["abs"] == "status:xr" and e["applied"] and x["paused"] and seen["got"] and not seen["paused"]:
                        inc("O1:status-write-onto-paused-XR-by-a-reconcile-that-read-it-unpaused")
                    if e["abs"] == "status:xr" and e["applied"] and x["del"] and seen["got"] and not seen["del"]:
                        inc("O1:status-write-onto-deleting-XR-by-a-reconcile-that-read-it-live")
                    if e["outcome"] == "conflict" and not e["injected"]:
                        inc("stale-conflict:" + e["abs"].split(":")[0])
                if ev == "end":
                    inc("end:" + e["result"])
                    if e["clean"]:
                        inc("end:clean")
                    if e["steady"]:
                        inc("end:steady")
                    if e["result"] == "ok" and not e["statusOK"] and seen["got"] and seen["ex"]:
                        inc("end:silent")
                if ev == "env":
                    inc("env:" + e["verb"])
    return dict(sorted(c.items()))


def drive_and_judge(ctx, scs, sweep=0, shards=6, counts=True):
    by_id = {s["id"]: s for s in scs}
    binp = build(ctx)
    prefix, s = ctx.run_sharded(binp, scs, ["-sweep", str(sweep), "-chunk", "60000"], shards=shards)
    viols, nlines = ctx.monitor("MonXRLifecycle", prefix)
    for formula, line, scid in viols:
        ctx.violation(formula, scid, ctx.replay_file(expand_id(by_id, scid)), "trace line %d" % line, fingerprint=formula)
    hc = hit_counts(prefix) if counts else {}
    return s, nlines, hc


def run(ctx):
    plan = QUICK if ctx.quick else THOROUGH
    scs, states, trans, emitted, consts = [], 0, 0, 0, {}
    for name, n in plan:
        cfg = "%s_%s.cfg" % (MODULE, name)
        mc = ctx.model_check(MODULE, cfg, sub="mc_" + name, workers=8 if ctx.quick else 16, timeout=300 if ctx.quick else 3000)
        scs += [{"id": "%s-%s-%07d" % (PID, name, i), "hist": h} for i, h in ctx.sample_lines(mc["emitted_file"], n, mc["emitted"])]
        states += mc["states"]
        trans += mc["transitions"]
        emitted += mc["emitted"]
        consts[cfg] = dict(states=mc["states"], transitions=mc["transitions"], depth=mc["depth"], scenarios=mc["emitted"])
    for name, expect in WITNESS:
        cfg = "%s_%s.cfg" % (MODULE, name)
        mc = ctx.model_check(MODULE, cfg, sub="mc_" + name, workers=1, timeout=120, expect_violations=expect)
        consts[cfg] = dict(states=mc["states"], violated=mc["violated"], expected=expect)
    chosen = regression() + scs
    s, nlines, hc = drive_and_judge(ctx, chosen, sweep=2 if ctx.quick else 12, shards=6 if ctx.quick else 14)
    ctx.cov.update(dict(
        states=states, transitions=trans, traces_validated_against_impl=s["runs"], samples=s["samples"][:2],
        model_runs=consts, scenarios_emitted=emitted, scenarios_replayed=s["scenarios"], reconciles=s["reconciles"],
        sweep_runs=s["sweep_runs"], events=nlines,
        per_action_counts={k: v for k, v in s["counts"].items()},
        drift=dict(unmatched_calls=s["drift"], runs_with_drift=s["drift_runs"], by_call=s.get("drift_by_abs", {}),
                   replays_repeated_for_the_random_pick=s.get("retries", 0), random_picks_not_aligned=s.get("unaligned_random_picks", 0)),
        formula_hit_counts=hc, monitor_formulas=MON_FORMULAS, exhaustive=(emitted == len(scs)),
        checker_cmd="tlc MCXRLifecycle (M,G) -> harness/drivers/xrlifecycle on /repo (T) -> tlc MonXRLifecycle",
        rule="one scenario per model transition that ends a reconcile (shortest history reaching it); every failure kind "
             "(error value / Conflict / cache miss / dead process before / after the effect) is its own transition; every "
             "scenario is followed by 2 fault-free reconciles; sweep = every real call index x {error, conflict, crash "
             "before, crash after, cache miss} + 2 fault-free reconciles",
    ))
    ctx.assumptions += [
        "simapi models the API server rules the reconciler relies on (optimistic concurrency on Update / status Update / "
        "merge patches that carry a resourceVersion, finalizers and deletionTimestamp, no-op writes keep the resourceVersion)",
        "the Composer is a recording stub (XRCompose's subject); a recording ConnectionPublisher is chained behind the real "
        "APIFilteredSecretPublisher, as the ExternalSecretStores wiring chains a second publisher",
        "every Composition has at most one revision, update policy Automatic (revision choice is C12's subject)",
        "enforcedCompositionRef is immutable once set (CEL rule on the XRD); adding it restarts the XR controller",
        "a status write onto a paused / deleting XR by a reconcile that read it earlier is tolerated (observation O1 in XRLifecycle.tla)",
        "verdict only from traces of the real composite.Reconciler judged by MonXRLifecycle.tla",
    ]


def replay(ctx, path):
    with open(path) as f:
        sc = json.load(f)
    s, nlines, _ = drive_and_judge(ctx, [sc], shards=1, counts=False)
    ctx.cov.update(dict(states=1, transitions=1, traces_validated_against_impl=s["runs"], samples=[sc], events=nlines))
