SPECIFICATION Spec
CONSTANTS
  Ctrls = {"c1"}
  Wids = {"xr", "cdA"}
  Procs = {1, 2}
  MaxOps = 3
  MaxInst = 2
  MaxSrc = 4
  OpKinds <- CoreOps
  SWSets <- SW_a
  FixGC = TRUE
  FixSnapshot = FALSE
  FixLost = TRUE
  MaxStopFails = 0
  FixStopped = TRUE
VIEW view

CHECK_DEADLOCK FALSE
INVARIANTS OneWatch
