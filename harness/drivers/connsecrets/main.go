// Driver for spec/ConnSecrets.tla (property C09): replays the input vectors
// TLC enumerates (spec/MCConnSecrets.tla) against the real Crossplane code
//
//	composite.NewAPIFilteredSecretPublisher(c, filter).PublishConnection
//	claim.NewAPIConnectionPropagator(c).PropagateConnection
//	composite.ExtractConnectionDetails
//	(family e2e) composite.NewReconciler with the real FunctionComposer and the
//	XRD key filter, then claim.NewReconciler, both on one store
//
// running on simapi, where Secrets are real stored, namespaced core/v1 objects,
// so the apply options (ConnectionSecretMustBeControllableBy, AllowUpdateIf) run
// against the current stored object. Per vector (per reconcile for e2e) one
// trace record holds the input and the observation: the XR's and the claim's
// secret before and after (keys, value ids, controller alias, type,
// resourceVersion, digest of the whole object), what the call returned, the
// write log (verbs that reached the store, whether they changed anything, the
// data in the request body) and a digest of every bystander secret. No property
// logic lives here: spec/MonConnSecrets.tla judges the records.
package main

import (
	"context"
	"crypto/sha256"
	"encoding/json"
	"flag"
	"fmt"
	"os"
	"regexp"
	"strconv"
	"strings"

	corev1 "k8s.io/api/core/v1"
	kerrors "k8s.io/apimachinery/pkg/api/errors"
	metav1 "k8s.io/apimachinery/pkg/apis/meta/v1"
	"k8s.io/apimachinery/pkg/apis/meta/v1/unstructured"
	"k8s.io/apimachinery/pkg/runtime"
	"k8s.io/apimachinery/pkg/types"
	"k8s.io/utils/ptr"
	"sigs.k8s.io/controller-runtime/pkg/client"

	xpv1 "github.com/crossplane/crossplane-runtime/apis/common/v1"
	"github.com/crossplane/crossplane-runtime/pkg/errors"
	"github.com/crossplane/crossplane-runtime/pkg/reconciler/managed"
	"github.com/crossplane/crossplane-runtime/pkg/resource"
	uclaim "github.com/crossplane/crossplane-runtime/pkg/resource/unstructured/claim"
	ucomposed "github.com/crossplane/crossplane-runtime/pkg/resource/unstructured/composed"
	ucomposite "github.com/crossplane/crossplane-runtime/pkg/resource/unstructured/composite"

	v1 "github.com/crossplane/crossplane/apis/apiextensions/v1"
	"github.com/crossplane/crossplane/internal/controller/apiextensions/claim"
	"github.com/crossplane/crossplane/internal/controller/apiextensions/composite"
	"github.com/crossplane/crossplane/zzverif/scen"
	"github.com/crossplane/crossplane/zzverif/simapi"
	"github.com/crossplane/crossplane/zzverif/trace"
)

const (
	none      = "-"
	nsX       = "xp-system" // namespace of the XR's connection secret
	nsC       = "ns1"       // namespace of the claim
	nsB       = "elsewhere" // bystanders
	xSecName  = "xr-conn"
	cSecName  = "claim-conn"
	xrName    = "xr1"
	claimName = "claim1"
	xrUID     = types.UID("uid-xr")
	claimUID  = types.UID("uid-claim")
	otherUID  = types.UID("uid-other")
	connType  = string(resource.SecretTypeConnection)
)

var (
	sch     = runtime.NewScheme()
	xSecKey = simapi.Key{Kind: "Secret", Namespace: nsX, Name: xSecName}
	cSecKey = simapi.Key{Kind: "Secret", Namespace: nsC, Name: cSecName}
	valRe   = regexp.MustCompile(`^v[0-9]+$`)
)

func init() {
	_ = corev1.AddToScheme(sch)
	_ = v1.AddToScheme(sch)
}

// ------------------------------------------------------------------ input

type secIn struct {
	Exists bool              `json:"exists"`
	Ctrl   string            `json:"ctrl"`
	Type   string            `json:"type"`
	Data   map[string]string `json:"data"`
}

type cfgIn struct {
	Tp   string `json:"tp"`
	Name string `json:"name"`
	Arg  string `json:"arg"`
}

type input struct {
	Fam      string            `json:"fam"`
	Details  map[string]string `json:"details"`
	Details2 map[string]string `json:"details2"`
	Filter   []string          `json:"filter"`
	XWants   bool              `json:"xwants"`
	CWants   bool              `json:"cwants"`
	XSec     secIn             `json:"xsec"`
	CSec     secIn             `json:"csec"`
	Cfgs     []cfgIn           `json:"cfgs"`
	CData    map[string]string `json:"cdata"`
	Foreign  string            `json:"foreign"` // e2eobs: how the cache serves the referenced composed resources: "cached" | "miss"
}

// value atoms <-> bytes
func bytesOf(v string) []byte {
	switch v {
	case "j42":
		return []byte("42")
	case "jobj":
		return []byte(`{"a":"b"}`)
	}
	return []byte(v)
}

func atomOf(b []byte) string {
	s := string(b)
	switch {
	case valRe.MatchString(s):
		return s
	case s == "42":
		return "j42"
	case s == `{"a":"b"}`:
		return "jobj"
	}
	return "?" + s
}

func detailsOf(m map[string]string) managed.ConnectionDetails {
	out := managed.ConnectionDetails{}
	for k, v := range m {
		if v != none {
			out[k] = bytesOf(v)
		}
	}
	return out
}

// ------------------------------------------------------------------ world

type world struct {
	s      *simapi.Server
	c      *recClient
	keys   map[string]bool // key universe of the record
	writes []map[string]any
	reads  int
	events []evt // events recorded by the reconcilers (e2e)
}

// recClient observes the request bodies of writes to Secrets (a merge patch
// carries no object simapi could expose) and forwards everything unchanged.
type recClient struct {
	*simapi.Client
	w    *world
	body map[string][]byte
}

func (r *recClient) stash(obj client.Object) {
	r.body = nil
	if s, ok := obj.(*corev1.Secret); ok {
		r.body = s.Data
	}
}

func (r *recClient) Create(ctx context.Context, obj client.Object, opts ...client.CreateOption) error {
	r.stash(obj)
	return r.Client.Create(ctx, obj, opts...)
}

func (r *recClient) Update(ctx context.Context, obj client.Object, opts ...client.UpdateOption) error {
	r.stash(obj)
	return r.Client.Update(ctx, obj, opts...)
}

func (r *recClient) Patch(ctx context.Context, obj client.Object, p client.Patch, opts ...client.PatchOption) error {
	r.body = nil
	if _, ok := obj.(*corev1.Secret); ok {
		if b, err := p.Data(obj); err == nil {
			s := &corev1.Secret{}
			if json.Unmarshal(b, s) == nil {
				r.body = s.Data
			}
		}
	}
	return r.Client.Patch(ctx, obj, p, opts...)
}

func (r *recClient) Delete(ctx context.Context, obj client.Object, opts ...client.DeleteOption) error {
	r.body = nil
	return r.Client.Delete(ctx, obj, opts...)
}

func (w *world) see(m map[string][]byte) {
	for k := range m {
		w.keys[k] = true
	}
}

func (w *world) dataOut(m map[string][]byte) map[string]any {
	out := map[string]any{}
	for k := range w.keys {
		out[k] = none
	}
	for k, v := range m {
		out[k] = atomOf(v)
	}
	return out
}

func (w *world) strsOut(m map[string]string) map[string]any {
	out := map[string]any{}
	for k := range w.keys {
		out[k] = none
	}
	for k, v := range m {
		out[k] = v
	}
	return out
}

func targetOf(e *simapi.Event) string {
	k := simapi.Key{Group: e.Group, Kind: e.Kind, Namespace: e.NS, Name: e.Name}
	switch k {
	case xSecKey:
		return "xsec"
	case cSecKey:
		return "csec"
	}
	return "other"
}

func (w *world) onEvent(e *simapi.Event) {
	if e.Kind != "Secret" || e.Group != "" {
		return
	}
	if !e.IsWrite() {
		w.reads++
		return
	}
	body := w.c.body
	w.see(body)
	w.writes = append(w.writes, map[string]any{"verb": e.Verb, "target": targetOf(e), "applied": e.Applied && !e.DryRun, "noop": e.Noop,
		"outcome": e.Outcome, "body": body})
}

func (w *world) writesOut() []any {
	out := []any{}
	for _, x := range w.writes {
		body, _ := x["body"].(map[string][]byte)
		out = append(out, map[string]any{"verb": x["verb"], "target": x["target"], "applied": x["applied"], "noop": x["noop"],
			"outcome": x["outcome"], "data": w.dataOut(body)})
	}
	return out
}

func ownerRef(kind, name string, uid types.UID, ctrl bool) metav1.OwnerReference {
	return metav1.OwnerReference{APIVersion: "ex.org/v1", Kind: kind, Name: name, UID: uid, Controller: ptr.To(ctrl), BlockOwnerDeletion: ptr.To(ctrl)}
}

func secretFor(ns, name string, in secIn) *corev1.Secret {
	s := &corev1.Secret{ObjectMeta: metav1.ObjectMeta{Namespace: ns, Name: name}, Data: detailsOf(in.Data)}
	switch in.Type {
	case "conn":
		s.Type = resource.SecretTypeConnection
	case "opaque":
		s.Type = corev1.SecretTypeOpaque
	default:
		panic("unknown secret type " + in.Type)
	}
	switch in.Ctrl {
	case "none":
	case "plain":
		s.OwnerReferences = []metav1.OwnerReference{ownerRef("XThing", xrName, xrUID, false)}
	case "xr":
		s.OwnerReferences = []metav1.OwnerReference{ownerRef("XThing", xrName, xrUID, true)}
	case "claim":
		s.OwnerReferences = []metav1.OwnerReference{ownerRef("Thing", claimName, claimUID, true)}
	case "other":
		s.OwnerReferences = []metav1.OwnerReference{ownerRef("XThing", "somebody-else", otherUID, true)}
	default:
		panic("unknown controller alias " + in.Ctrl)
	}
	if len(s.Data) == 0 {
		s.Data = nil
	}
	return s
}

func newWorld(in *input) *world {
	w := &world{s: simapi.NewServer(sch), keys: map[string]bool{}}
	w.c = &recClient{Client: simapi.NewClient(w.s, "c09"), w: w}
	for _, m := range []map[string]string{in.Details, in.Details2, in.XSec.Data, in.CSec.Data, in.CData} {
		for k := range m {
			w.keys[k] = true
		}
	}
	for _, k := range in.Filter {
		w.keys[k] = true
	}
	if in.XSec.Exists {
		w.s.Put(secretFor(nsX, xSecName, in.XSec))
	}
	if in.CSec.Exists {
		w.s.Put(secretFor(nsC, cSecName, in.CSec))
	}
	// bystanders: secrets with the same names in other namespaces (and with each other's name in each other's namespace)
	by := secIn{Exists: true, Ctrl: "none", Type: "conn", Data: map[string]string{"k1": "v1"}}
	for _, nn := range [][2]string{{nsB, xSecName}, {nsB, cSecName}, {nsC, xSecName}, {nsX, cSecName}} {
		w.s.Put(secretFor(nn[0], nn[1], by))
	}
	w.s.OnEvent = w.onEvent
	return w
}

func (w *world) secret(k simapi.Key) *corev1.Secret {
	u := w.s.Peek(k)
	if u == nil {
		return nil
	}
	s := &corev1.Secret{}
	if err := runtime.DefaultUnstructuredConverter.FromUnstructured(u.Object, s); err != nil {
		panic(err)
	}
	w.see(s.Data)
	return s
}

func digest(u *unstructured.Unstructured) string {
	b, _ := json.Marshal(u.Object)
	return fmt.Sprintf("%x", sha256.Sum256(b))[:16]
}

func ctrlAlias(s *corev1.Secret) string {
	c := metav1.GetControllerOf(s)
	if c == nil {
		if len(s.OwnerReferences) > 0 {
			return "plain"
		}
		return "none"
	}
	switch c.UID {
	case xrUID:
		return "xr"
	case claimUID:
		return "claim"
	case otherUID:
		return "other"
	}
	return "?" + string(c.UID)
}

func typeAlias(t corev1.SecretType) string {
	switch t {
	case resource.SecretTypeConnection:
		return "conn"
	case corev1.SecretTypeOpaque, "":
		return "opaque"
	}
	return "?" + string(t)
}

// snap is the state of the two secrets and of the bystanders at one moment.
type snap struct {
	x, c   *corev1.Secret
	xd, cd string
	xrv    int
	crv    int
	by     string
}

func rvOf(u *unstructured.Unstructured) int {
	n, err := strconv.Atoi(u.GetResourceVersion())
	if err != nil {
		return -2
	}
	return n
}

func (w *world) snap() snap {
	sn := snap{xd: "absent", cd: "absent", xrv: -1, crv: -1}
	sn.x, sn.c = w.secret(xSecKey), w.secret(cSecKey)
	if u := w.s.Peek(xSecKey); u != nil {
		sn.xd, sn.xrv = digest(u), rvOf(u)
	}
	if u := w.s.Peek(cSecKey); u != nil {
		sn.cd, sn.crv = digest(u), rvOf(u)
	}
	h := sha256.New()
	for _, u := range w.s.All(corev1.SchemeGroupVersion.WithKind("Secret").GroupKind()) {
		if k := simapi.KeyOf(u); k != xSecKey && k != cSecKey {
			fmt.Fprintf(h, "%s=%s;", k, digest(u))
		}
	}
	sn.by = fmt.Sprintf("%x", h.Sum(nil))[:16]
	return sn
}

func (w *world) secOut(s *corev1.Secret, dig string, rv int) map[string]any {
	if s == nil {
		return map[string]any{"exists": false, "ctrl": "none", "type": "none", "data": w.dataOut(nil), "rv": -1, "dig": "absent"}
	}
	return map[string]any{"exists": true, "ctrl": ctrlAlias(s), "type": typeAlias(s.Type), "data": w.dataOut(s.Data), "rv": rv, "dig": dig}
}

func cfgsOut(cs []cfgIn) []any {
	out := []any{}
	for _, c := range cs {
		out = append(out, map[string]any{"tp": c.Tp, "name": c.Name, "arg": c.Arg})
	}
	return out
}

func strsAny(ss []string) []any {
	out := []any{}
	for _, s := range ss {
		out = append(out, s)
	}
	return out
}

// obs assembles the observation record (every record has the same fields).
func (w *world) obs(leg string, details map[string]string, filter []string, xwants, cwants bool, pre, post snap, published bool, errc string) map[string]any {
	// project the maps last: the key universe may have grown while observing
	return map[string]any{"leg": leg, "details": w.strsOut(details), "filter": strsAny(filter), "xwants": xwants, "cwants": cwants,
		"xpre": w.secOut(pre.x, pre.xd, pre.xrv), "xpost": w.secOut(post.x, post.xd, post.xrv),
		"cpre": w.secOut(pre.c, pre.cd, pre.crv), "cpost": w.secOut(post.c, post.cd, post.crv),
		"bypre": pre.by, "bypost": post.by, "published": published, "err": errc, "surfaced": errc != "", "writes": w.writesOut(), "reads": w.reads,
		"fresh": false, "produced": []any{}, "cfgs": []any{}, "cdata": w.strsOut(nil), "xout": w.strsOut(nil), "xerr": false}
}

func errClass(err error) string {
	switch {
	case err == nil:
		return ""
	case resource.IsNotControllable(err):
		return "notcontrollable"
	case kerrors.IsNotFound(errors.Cause(err)):
		return "nosource"
	}
	return msgClass(err.Error())
}

func msgClass(msg string) string {
	switch {
	case strings.Contains(msg, "cannot establish control of existing connection secret"):
		return "srcnotowned"
	case strings.Contains(msg, "is not controlled by UID"), strings.Contains(msg, "refusing to modify uncontrolled secret"):
		return "notcontrollable"
	case strings.Contains(msg, "cannot get composite resource's connection secret") && strings.Contains(msg, "not found"):
		return "nosource"
	}
	return "other: " + msg
}

// ------------------------------------------------------------ the owners

func newXR(wants bool) *ucomposite.Unstructured {
	xr := ucomposite.New(ucomposite.WithGroupVersionKind(xrGVK))
	xr.SetName(xrName)
	xr.SetUID(xrUID)
	if wants {
		xr.SetWriteConnectionSecretToReference(&xpv1.SecretReference{Name: xSecName, Namespace: nsX})
	}
	return xr
}

func newClaim(wants bool) *uclaim.Unstructured {
	cm := uclaim.New(uclaim.WithGroupVersionKind(claimGVK))
	cm.SetNamespace(nsC)
	cm.SetName(claimName)
	cm.SetUID(claimUID)
	if wants {
		cm.SetWriteConnectionSecretToReference(&xpv1.LocalSecretReference{Name: cSecName})
	}
	return cm
}

// ------------------------------------------------------------ direct families

func runPublish(in *input) []map[string]any {
	w := newWorld(in)
	pre := w.snap()
	filter := in.Filter
	if len(filter) == 0 {
		filter = nil // an XRD that lists no connectionSecretKeys
	}
	published, err := composite.NewAPIFilteredSecretPublisher(w.c, filter).PublishConnection(context.Background(), newXR(in.XWants), detailsOf(in.Details))
	post := w.snap()
	return []map[string]any{w.obs("publish", in.Details, in.Filter, in.XWants, in.CWants, pre, post, published, errClass(err))}
}

func runPropagate(in *input) []map[string]any {
	w := newWorld(in)
	pre := w.snap()
	published, err := claim.NewAPIConnectionPropagator(w.c).PropagateConnection(context.Background(), newClaim(in.CWants), newXR(in.XWants))
	post := w.snap()
	return []map[string]any{w.obs("propagate", nil, in.Filter, in.XWants, in.CWants, pre, post, published, errClass(err))}
}

var paths = map[string]string{"pstr": "spec.forProvider.str", "pnum": "spec.forProvider.num", "pobj": "spec.forProvider.obj",
	"pmissing": "spec.forProvider.missing", "pbad": "spec.forProvider[str"}

func extractCfg(c cfgIn) composite.ConnectionDetailExtractConfig {
	out := composite.ConnectionDetailExtractConfig{Name: c.Name}
	switch c.Tp {
	case "key":
		out.Type = composite.ConnectionDetailTypeFromConnectionSecretKey
		if c.Arg != "nil" {
			out.FromConnectionSecretKey = ptr.To(c.Arg)
		}
	case "path":
		out.Type = composite.ConnectionDetailTypeFromFieldPath
		if c.Arg != "nil" {
			p, ok := paths[c.Arg]
			if !ok {
				panic("unknown path atom " + c.Arg)
			}
			out.FromFieldPath = ptr.To(p)
		}
	case "value":
		out.Type = composite.ConnectionDetailTypeFromValue
		if c.Arg != "nil" {
			out.Value = ptr.To(string(bytesOf(c.Arg)))
		}
	default:
		out.Type = composite.ConnectionDetailType("SomethingElse")
	}
	return out
}

func composedThing() *ucomposed.Unstructured {
	cd := ucomposed.New()
	cd.SetAPIVersion("ex.org/v1")
	cd.SetKind("Thing")
	cd.SetName("thing-1")
	_ = unstructured.SetNestedField(cd.Object, "v1", "spec", "forProvider", "str")
	_ = unstructured.SetNestedField(cd.Object, int64(42), "spec", "forProvider", "num")
	_ = unstructured.SetNestedMap(cd.Object, map[string]any{"a": "b"}, "spec", "forProvider", "obj")
	return cd
}

func runExtract(in *input) []map[string]any {
	w := newWorld(in)
	for _, c := range in.Cfgs {
		if c.Name != "" {
			w.keys[c.Name] = true
		}
	}
	pre := w.snap()
	cfgs := make([]composite.ConnectionDetailExtractConfig, 0, len(in.Cfgs))
	for _, c := range in.Cfgs {
		cfgs = append(cfgs, extractCfg(c))
	}
	out, err := composite.ExtractConnectionDetails(composedThing(), detailsOf(in.CData), cfgs...)
	post := w.snap()
	w.see(out)
	o := w.obs("extract", nil, in.Filter, in.XWants, in.CWants, pre, post, false, "")
	o["cfgs"], o["cdata"], o["xout"], o["xerr"] = cfgsOut(in.Cfgs), w.strsOut(in.CData), w.dataOut(out), err != nil
	return []map[string]any{o}
}

func runVector(in *input) []map[string]any {
	switch in.Fam {
	case "publish":
		return runPublish(in)
	case "propagate":
		return runPropagate(in)
	case "extract":
		return runExtract(in)
	case "e2e":
		return runE2E(in)
	case "e2ept":
		return runE2EPT(in)
	case "e2eobs":
		return runE2EObs(in)
	}
	panic("unknown family " + in.Fam)
}

// ------------------------------------------------------------------ main

type summary struct {
	Scenarios int            `json:"scenarios"`
	Runs      int            `json:"runs"`
	Events    int            `json:"events"`
	ByFamily  map[string]int `json:"by_family"`
	Counts    map[string]int `json:"counts"`
	Samples   []any          `json:"samples"`
}

func present(m any) map[string]string {
	out := map[string]string{}
	for k, v := range m.(map[string]any) {
		if v != none {
			out[k] = v.(string)
		}
	}
	return out
}

// count records how often the antecedent of each monitor formula was exercised (anti-vacuity evidence only).
func count(sum *summary, o map[string]any) {
	leg := o["leg"].(string)
	c := func(k string) { sum.Counts[leg+":"+k]++ }
	if leg == "extract" {
		if o["xerr"].(bool) {
			c("error")
		} else {
			c("ok")
			if len(present(o["xout"])) < len(o["cfgs"].([]any)) {
				c("some-omitted-or-merged")
			}
		}
		return
	}
	xpre, cpre := o["xpre"].(map[string]any), o["cpre"].(map[string]any)
	dpre, dpost, owner, asked := xpre, o["xpost"].(map[string]any), "xr", o["xwants"].(bool)
	if leg == "propagate" {
		dpre, dpost, owner, asked = cpre, o["cpost"].(map[string]any), "claim", o["xwants"].(bool) && o["cwants"].(bool)
	}
	if !asked {
		c("not-asked")
		return
	}
	srcOwned := leg == "publish" || (xpre["exists"].(bool) && xpre["ctrl"] == "xr")
	if !srcOwned {
		c("source-not-owned")
	}
	if dpre["exists"].(bool) {
		switch ctrl := dpre["ctrl"].(string); {
		case ctrl != "none" && ctrl != "plain" && ctrl != owner:
			c("dst-foreign")
		case ctrl != owner && dpre["type"] != "conn":
			c("dst-uncontrolled-opaque")
		}
	} else {
		c("dst-absent")
	}
	if dpre["dig"] != dpost["dig"] {
		c("dst-written")
	}
	if o["published"].(bool) {
		c("published")
	}
	if o["err"] != "" {
		c("error")
	}
	for _, x := range o["writes"].([]any) {
		m := x.(map[string]any)
		c("write-" + m["verb"].(string))
		if m["noop"].(bool) {
			c("write-noop-at-store")
		}
	}
	if len(o["writes"].([]any)) == 0 && dpre["exists"].(bool) && o["err"] == "" && srcOwned {
		c("identical-no-write")
	}
	if o["fresh"].(bool) {
		c("fresh-history")
	}
}

func main() {
	scenarios := flag.String("scenarios", "", "NDJSON file of {id, input} scenarios")
	tracePath := flag.String("trace", "", "output trace")
	sumPath := flag.String("summary", "", "output summary JSON")
	chunk := flag.Int("chunk", 0, "split the trace into files of about this many events")
	_ = flag.Int("seed", 1, "unused: the driver makes no random choice")
	flag.Parse()

	raws, err := scen.Load(*scenarios)
	if err != nil {
		fmt.Fprintln(os.Stderr, err)
		os.Exit(2)
	}
	tw, err := trace.New(*tracePath, *chunk)
	if err != nil {
		fmt.Fprintln(os.Stderr, err)
		os.Exit(2)
	}
	sum := &summary{ByFamily: map[string]int{}, Counts: map[string]int{}}
	seen := map[string]bool{}
	for _, raw := range raws {
		var sc struct {
			ID    string          `json:"id"`
			Input json.RawMessage `json:"input"`
		}
		if err := json.Unmarshal(raw, &sc); err != nil || len(sc.Input) == 0 {
			fmt.Fprintln(os.Stderr, "bad scenario:", err, string(raw[:min(len(raw), 200)]))
			os.Exit(2)
		}
		var in input
		if err := json.Unmarshal(sc.Input, &in); err != nil {
			fmt.Fprintln(os.Stderr, "bad scenario input:", err)
			os.Exit(2)
		}
		var anyIn map[string]any
		_ = json.Unmarshal(sc.Input, &anyIn)
		tw.Boundary()
		for i, o := range runVector(&in) {
			ev := map[string]any{"ev": "out", "scenario": sc.ID, "fam": in.Fam, "step": i + 1, "input": anyIn, "obs": o}
			tw.Emit(ev)
			count(sum, o)
			if k := in.Fam + "/" + o["leg"].(string); !seen[k] && (len(o["writes"].([]any)) > 0 || in.Fam == "extract") {
				seen[k] = true
				sum.Samples = append(sum.Samples, ev)
			}
		}
		sum.Scenarios++
		sum.Runs++
		sum.ByFamily[in.Fam]++
	}
	sum.Events = tw.Lines
	if err := tw.Close(); err != nil {
		fmt.Fprintln(os.Stderr, err)
		os.Exit(2)
	}
	if err := scen.WriteJSON(*sumPath, sum); err != nil {
		fmt.Fprintln(os.Stderr, err)
		os.Exit(2)
	}
}
