SPECIFICATION Spec
CONSTANTS
  USeq <- S2
  Useds <- U1
  Configs <- CfgHook
  InitSel <- NoSet
  InitCtl <- NoSet
  Policies <- Pol1
  DryRuns <- OnlyFalse
  HookFaults <- HookOk
  EnvKinds <- EnvHook
  FaultKinds <- NoSet
  MaxCreates = 2
  MaxRecs = 2
  MaxFaults = 0
  MaxEnv = 2
  MaxDel = 1
  MidEnv = FALSE
  BFin = FALSE
  FinFirst = TRUE
  DryRunAware = FALSE
  PanicFree = FALSE
VIEW view

CHECK_DEADLOCK FALSE
INVARIANTS HookNeverPanics
