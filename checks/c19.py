"""C19 - an in-use resource cannot be deleted; protection ends exactly when use ends.
Model: spec/Usage.tla (Usage reconciler call by call, selector resolver, DELETE admission with the objectSelector,
shared field index; two reconciles interleave at call granularity); driver: harness/drivers/usage (the real
usage.Reconciler, the real webhook set up by usage.SetupWebhookWithManager, rules/objectSelector read from
cluster/webhookconfigurations/usage.yaml, one gated goroutine per Usage); monitor: spec/MonUsage.tla."""
import glob
import json
import os

import vlib

PID = "C19"
FORMULAS = ["Protected", "Protected.NotRecorded", "Protected.StaleUnlabel", "Allowed", "LabelFirst", "LabelFirst.StaleUnlabel",
            "LabelLast", "LabelLast.StaleUnlabel", "Owned", "IndexAgree", "UsageAfterUser"]
# D11 (DESIGN section 4) shows as the three *.StaleUnlabel formulas; a known-findings entry lists them as `fingerprints`
D11_FINGERPRINTS = ["Protected.StaleUnlabel", "LabelFirst.StaleUnlabel", "LabelLast.StaleUnlabel"]
# the model of the code as written violates these (D11); the model with the candidate repair satisfies everything
WITNESS = [("MCUsage_witness_protected.cfg", ["Protected"]), ("MCUsage_witness_labellast.cfg", ["LabelLast"]),
           ("MCUsage_witness_labelfirst.cfg", ["LabelFirst"])]


def regression():
    out = []
    for p in sorted(glob.glob(os.path.join(vlib.VERIF, "scenarios", PID, "*.json"))):
        with open(p) as f:
            out.append(json.load(f))
    return out


def replay_scenario(by_id, scid):
    """The replay file of a (possibly derived) scenario id: base history + how 'fail' was realised + the swept fault."""
    parts = scid.split("/")
    base = dict(by_id.get(parts[0], {"id": parts[0]}))
    base["id"] = scid
    if "variant" not in base:
        base["variant"] = "error"
    for p in parts[1:]:
        if p.startswith("sweep-"):
            _, a, r, k, o = p.split("-")
            base["sweep"] = {"actor": a, "rec": int(r[1:]), "idx": int(k[1:]), "outcome": o}
            base["extra"] = 2
        else:
            base["variant"] = p
    return base


def drive_and_judge(ctx, scs, sweep=0, variants="rotate", shards=6, allprobes=False):
    by_id = {s["id"]: s for s in scs}
    binp = ctx.go_build("./drivers/usage")
    args = ["-chunk", "60000", "-sweep", str(sweep), "-variants", variants, "-seed", str(ctx.seed)]
    if allprobes:
        args.append("-allprobes")
    prefix, s = ctx.run_sharded(binp, scs, args, shards=shards)
    viols, nlines = ctx.monitor("MonUsage", prefix, par=8)
    per = {}
    for formula, line, scid in viols:
        per[formula] = per.get(formula, 0) + 1
        ctx.violation(formula, scid, ctx.replay_file(replay_scenario(by_id, scid)), "trace line %d" % line,
                      fingerprint=formula)
    s["violations_by_formula"] = per
    return s, nlines


def run(ctx):
    import concurrent.futures
    quick = ctx.quick
    if quick:
        plan = [("MCUsage_quick_race.cfg", 1400), ("MCUsage_quick_faults.cfg", 1400), ("MCUsage_quick_two.cfg", 600), ("MCUsage_quick_comp.cfg", 1500)]
        fixed = "MCUsage_fixed_quick.cfg"
    else:
        plan = [("MCUsage_quick_race.cfg", 20000), ("MCUsage_quick_faults.cfg", 60000), ("MCUsage_quick_two.cfg", 8000), ("MCUsage_quick_comp.cfg", 2000),
                ("MCUsage_thorough_race.cfg", 40000), ("MCUsage_thorough_racefaults.cfg", 25000), ("MCUsage_thorough_faults.cfg", 30000),
                ("MCUsage_thorough_two.cfg", 30000)]
        fixed = "MCUsage_fixed.cfg"
    # (M)+(G): the scenario-generating runs, the witnesses (the design as coded admits the D11 race: expected model-level
    # violations) and the model with the candidate repair (every formula holds) run side by side
    jobs = [(cfg, ()) for cfg, _ in plan] + WITNESS + [(fixed, ())]

    def one(job):
        cfg, exp = job
        return cfg, ctx.model_check("MCUsage", cfg, sub="mc_" + cfg[len("MCUsage_"):-4], workers=4 if quick else 8,
                                    timeout=300 if quick else 3000, heap="6g", expect_violations=exp)

    with concurrent.futures.ThreadPoolExecutor(max_workers=4 if quick else 3) as ex:
        res = dict(ex.map(one, jobs))
    scs, states, trans, emitted, consts = [], 0, 0, 0, {}
    for cfg, n in plan:
        name, mc = cfg[len("MCUsage_"):-4], res[cfg]
        scs += [{"id": "%s-%s-%07d" % (PID, name, i), "hist": h} for i, h in ctx.sample_lines(mc["emitted_file"], n, mc["emitted"])]
        states += mc["states"]
        trans += mc["transitions"]
        emitted += mc["emitted"]
        consts[cfg] = dict(states=mc["states"], transitions=mc["transitions"], depth=mc["depth"], scenarios=mc["emitted"])
    for cfg, exp in WITNESS:
        consts[cfg] = dict(violates=exp, states_to_violation=res[cfg]["states"])
    consts[fixed] = dict(states=res[fixed]["states"], transitions=res[fixed]["transitions"], holds="all formulas, FixBump = TRUE")
    ctx.rng.shuffle(scs)   # the real-call-index sweep takes the first scenarios of every shard
    chosen = regression() + scs
    s, nlines = drive_and_judge(ctx, chosen, sweep=2 if quick else 12, variants="all",
                                shards=6 if quick else 14, allprobes=not quick)
    ctx.cov["lifecycle_rider"] = rider_lifecycle(ctx)
    ctx.cov.update(dict(
        states=states, transitions=trans, traces_validated_against_impl=s["runs"], samples=s["samples"][:2], model_runs=consts,
        scenarios_emitted=emitted, scenarios_replayed=s["scenarios"], reconciles=s["reconciles"], sweep_runs=s["sweep_runs"],
        admission_probes=s["probes"], events=nlines, formula_antecedent_hits=s.get("hits", {}), per_action_counts=s["counts"],
        drift=dict(unmatched_calls=s["drift"], runs_with_drift=s["drift_runs"], by_call=s.get("drift_by_abs", {})),
        monitor_formulas=FORMULAS, violations_by_formula=s["violations_by_formula"], exhaustive=(emitted == len(scs)),
        checker_cmd="tlc MCUsage (M,G) -> harness/drivers/usage on /repo (T) -> tlc MonUsage",
        rule="one scenario per model transition that ends a reconcile, is a delete request or a re-application by the composer "
             "(shortest history reaching it); a model 'fail' is realised as error / conflict / crash-before; sweep = every real call "
             "index of every reconcile x 4 outcomes + 2 fault-free reconciles of every Usage; after every call and environment step "
             "the real webhook path is probed for every used resource and served version",
    ))
    ctx.assumptions += [
        "simapi models the API server rules listed in spec/KubeAPI.tla; an update that changes nothing keeps the resourceVersion",
        "the API server consults the webhook as cluster/webhookconfigurations/usage.yaml says (rules, objectSelector, service path, "
        "failurePolicy), read at run time; the handler is reached through the http.Handler the real SetupWebhookWithManager registered",
        "probes run the real handler with its annotation patch captured instead of applied; delete requests that are part of a "
        "scenario go through the store and take effect",
        "the composer's re-application of a composed Usage is the real composite.PTComposer.Compose on an XR whose revision has the "
        "Usage as its only resource template (not a full XR reconcile); the composed Usage itself is created by the environment "
        "with the metadata the composer gives it, because the composer generates names",
        "verdict only from traces of the real reconciler / webhook judged by MonUsage.tla",
    ]


def run_composed(ctx, n=1500):
    """Rider for C08 (formula UsageAfterUser): only the scenarios with composed Usages by a using resource that exists / is being
    deleted / is gone when the Usage is deleted, with a fault at every call. Call with a child context (ctx.sub)."""
    mc = ctx.model_check("MCUsage", "MCUsage_quick_comp.cfg", sub="mc_quick_comp", workers=4, timeout=300)
    scs = [{"id": "%s-quick_comp-%07d" % (PID, i), "hist": h} for i, h in ctx.sample_lines(mc["emitted_file"], n, mc["emitted"])]
    s, nlines = drive_and_judge(ctx, scs, variants="all", shards=4)
    ctx.cov.update(dict(states=mc["states"], transitions=mc["transitions"], traces_validated_against_impl=s["runs"], samples=s["samples"][:1],
                        events=nlines, formula_antecedent_hits={k: v for k, v in s.get("hits", {}).items() if k.startswith("UsageAfterUser")},
                        violations_by_formula=s["violations_by_formula"]))
    return s


# The admission webhook and the reconciler's bookkeeping beyond this check's own model (delete requests with every
# propagation policy and as dry runs, webhook client faults, unresolved selectors, replayed deletions, re-created
# resources): module UsageLifecycle (check X10), on the real handler behind the objectSelector of usage.yaml.
RIDER_FORMULAS = ["Webhook.NonDelete", "Webhook.Scope", "Webhook.Reached", "Webhook.Deny", "Webhook.FailClosed", "Webhook.Deny.Panic",
                  "Webhook.Recorded", "Webhook.Recorded.Panic", "Webhook.Allow", "Webhook.OnlyAnnotation", "DryRun.NoEffect",
                  "Finalizer.BeforeLabel", "Used.OnlyLabel", "Used.OnlyNamed", "Ready.Needs", "Ready.Owned", "Owner.Added", "Owner.Kept", "Settled.Ready", "Delete.Order"]


def rider_lifecycle(ctx):
    from checks import x10
    sub = ctx.sub("usagelifecycle")
    scs, st, tr = [], 0, 0
    for name, n in ([("quick_hook", 350), ("quick_del", 250), ("quick_replay", 200)] if ctx.quick else [("thorough_hook", 5000), ("quick_hook", 4000), ("quick_del", 4000), ("quick_replay", 4000)]):
        mc = sub.model_check(x10.MODULE, "%s_%s.cfg" % (x10.MODULE, name), sub="mc_" + name, workers=4, timeout=1500)
        scs += [{"id": "%s-ul-%s-%07d" % (PID, name, i), "hist": h, "rider": "usagelifecycle"} for i, h in sub.sample_lines(mc["emitted_file"], n, mc["emitted"])]
        st += mc["states"]
        tr += mc["transitions"]
    s, n, _ = x10.drive_and_judge(sub, scs, sweep=0, shards=4 if ctx.quick else 8, counts=False)
    for v in sub.violations:
        if v["formula"] in RIDER_FORMULAS:
            ctx.violations.append(v)
    return dict(states=st, transitions=tr, runs=s.get("runs"), events=n, formulas=RIDER_FORMULAS)


def replay(ctx, path):
    with open(path) as f:
        sc = json.load(f)
    if sc.get("rider") == "usagelifecycle":
        from checks import x10
        x10.replay(ctx, path)
        ctx.violations = [v for v in ctx.violations if v["formula"] in RIDER_FORMULAS]
        return
    if "variant" not in sc and "sweep" not in sc:
        sc["variant"] = "error"
    s, nlines = drive_and_judge(ctx, [sc], shards=1, allprobes=True)
    ctx.cov.update(dict(states=1, transitions=1, traces_validated_against_impl=s["runs"], samples=[sc], events=nlines,
                        violations_by_formula=s["violations_by_formula"]))
