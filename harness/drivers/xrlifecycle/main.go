// Driver for spec/XRLifecycle.tla (X03): replays TLC behaviours against the real
// composite.Reconciler (internal/controller/apiextensions/composite) wired by the
// real definition.Reconciler.CompositeReconcilerOptions - real APIFinalizer,
// EnforcedCompositionSelector / APIDefaultCompositionSelector /
// APILabelSelectorResolver chain, APIRevisionFetcher, APINamingConfigurator /
// APIConfigurator, APIFilteredSecretPublisher - on simapi. Only the Composer is a
// recording stub (its internals are XRCompose's subject), and a recording
// ConnectionPublisher is chained behind the real one so that UnpublishConnection is
// observable. One trace event per API call / Composer call / environment step /
// reconcile end, each with the projected abstract state. No property logic here:
// the verdict comes from spec/MonXRLifecycle.tla.
package main

import (
	"context"
	"crypto/sha256"
	"encoding/json"
	"errors"
	"flag"
	"fmt"
	"os"
	"sort"
	"strings"
	"time"

	corev1 "k8s.io/api/core/v1"
	kerrors "k8s.io/apimachinery/pkg/api/errors"
	metav1 "k8s.io/apimachinery/pkg/apis/meta/v1"
	"k8s.io/apimachinery/pkg/apis/meta/v1/unstructured"
	"k8s.io/apimachinery/pkg/runtime"
	"k8s.io/apimachinery/pkg/runtime/schema"
	"k8s.io/apimachinery/pkg/types"
	"k8s.io/utils/ptr"
	"sigs.k8s.io/controller-runtime/pkg/client"
	"sigs.k8s.io/controller-runtime/pkg/reconcile"

	"github.com/crossplane/crossplane-runtime/pkg/controller"
	xperrors "github.com/crossplane/crossplane-runtime/pkg/errors"
	"github.com/crossplane/crossplane-runtime/pkg/event"
	"github.com/crossplane/crossplane-runtime/pkg/meta"
	"github.com/crossplane/crossplane-runtime/pkg/reconciler/managed"
	"github.com/crossplane/crossplane-runtime/pkg/resource"
	ucomposite "github.com/crossplane/crossplane-runtime/pkg/resource/unstructured/composite"

	v1 "github.com/crossplane/crossplane/apis/apiextensions/v1"
	"github.com/crossplane/crossplane/internal/controller/apiextensions/composite"
	apiextcontroller "github.com/crossplane/crossplane/internal/controller/apiextensions/controller"
	"github.com/crossplane/crossplane/internal/controller/apiextensions/definition"
	"github.com/crossplane/crossplane/internal/engine"
	"github.com/crossplane/crossplane/zzverif/replay"
	"github.com/crossplane/crossplane/zzverif/scen"
	"github.com/crossplane/crossplane/zzverif/simapi"
	"github.com/crossplane/crossplane/zzverif/trace"
)

const (
	xrName     = "xr1"
	xrdName    = "xthings.ex.org"
	ourFin     = "composite.apiextensions.crossplane.io"
	otherFin   = "example.org/keep"
	labelName  = "crossplane.io/composite"
	pausedAnn  = "crossplane.io/paused"
	touchAnn   = "example.org/touched"
	selLabel   = "tier"
	pollMillis = 60000
)

var (
	xrGVK  = schema.GroupVersionKind{Group: "ex.org", Version: "v1", Kind: "XThing"}
	xrKey  = simapi.Key{Group: "ex.org", Kind: "XThing", Name: xrName}
	xrdKey = simapi.Key{Group: "apiextensions.crossplane.io", Kind: "CompositeResourceDefinition", Name: xrdName}
)

func compKey(n string) simapi.Key {
	return simapi.Key{Group: "apiextensions.crossplane.io", Kind: "Composition", Name: n}
}
func revNameOf(n string) string { return n + "-r1" }
func revKey(n string) simapi.Key {
	return simapi.Key{Group: "apiextensions.crossplane.io", Kind: "CompositionRevision", Name: revNameOf(n)}
}

type compAttr struct {
	compat, valid bool
	wns           string // "none" or the namespace
}

type world struct {
	s      *simapi.Server
	c, uc  *simapi.Client
	sch    *runtime.Scheme
	rec    reconcile.Reconciler
	names  []string
	attrs  map[string]compAttr
	scenID string
	buf    []map[string]any

	al       *replay.Aligner
	recNo    int
	captured string // the enforced reference the running controller captured

	// per reconcile
	seen        map[string]any
	listed      []any
	sdef        string
	gotcomp     string // the Composition this reconcile fetched
	lrevs       []any  // the revisions that existed when this reconcile listed them
	fails       []any
	composed    string
	unpub       bool
	statusOK    bool
	evs         []any
	pendingAbs  string
	arg         map[string]any
	expectPick  string // the Composition the scenario assumes the label selector picks in this reconcile ("" = none)
	mismatch    bool // the label selector picked another Composition than the scenario assumed (random in the code)

	prevOK       bool
	prevDig      string
	prevComposed string
	touched      int
}

// ---------------------------------------------------------------- projection

func orNone(s string) string {
	if s == "" {
		return "none"
	}
	return s
}

func noXR() map[string]any {
	return map[string]any{"ex": false, "del": false, "paused": false, "fin": false, "ofin": false, "ref": "none", "sel": "none",
		"rev": "none", "lab": "none", "wsec": "none", "synced": "none", "step": "none", "detail": "none", "ready": "none", "rest": "", "uid": "", "name": ""}
}

var stepPrefix = [][2]string{
	{"cannot add composite resource finalizer", "addfin"},
	{"cannot remove composite resource finalizer", "rmfin"},
	{"cannot select Composition", "select"},
	{"cannot fetch Composition", "fetch"},
	{"refusing to use invalid Composition", "validate"},
	{"cannot configure composite resource", "configure"},
	{"cannot compose resources", "compose"},
	{"cannot publish connection details", "publish"},
	{"cannot unpublish connection details", "unpublish"},
}
var detailSub = [][2]string{
	{"no compatible Compositions found", "nocand"},
	{"no compatible CompositionRevisions found", "norev"},
	{"referenced composition is not compatible", "incompat"},
	{"not found", "notfound"},
}

func xrProj(u *unstructured.Unstructured) map[string]any {
	m := noXR()
	if u == nil {
		return m
	}
	m["ex"] = true
	m["uid"] = string(u.GetUID())
	m["name"] = u.GetName()
	m["del"] = u.GetDeletionTimestamp() != nil
	m["paused"] = u.GetAnnotations()[pausedAnn] == "true"
	rest := map[string]any{}
	var fins []string
	for _, f := range u.GetFinalizers() {
		switch f {
		case ourFin:
			m["fin"] = true
		case otherFin:
			m["ofin"] = true
		default:
			fins = append(fins, f)
		}
	}
	rest["fins"] = fins
	if n, _, _ := unstructured.NestedString(u.Object, "spec", "compositionRef", "name"); n != "" {
		m["ref"] = n
	}
	if n, _, _ := unstructured.NestedString(u.Object, "spec", "compositionSelector", "matchLabels", selLabel); n != "" {
		m["sel"] = n
	}
	if n, _, _ := unstructured.NestedString(u.Object, "spec", "compositionRevisionRef", "name"); n != "" {
		m["rev"] = n
	}
	if v, ok := u.GetLabels()[labelName]; ok {
		m["lab"] = v
		if v == "" {
			m["lab"] = "empty"
		}
	}
	if ws, ok, _ := unstructured.NestedMap(u.Object, "spec", "writeConnectionSecretToRef"); ok {
		m["wsec"] = fmt.Sprintf("%v/%v", ws["namespace"], ws["name"])
	}
	cs, _, _ := unstructured.NestedSlice(u.Object, "status", "conditions")
	for _, c := range cs {
		cm, _ := c.(map[string]any)
		switch cm["type"] {
		case "Synced":
			m["synced"] = fmt.Sprintf("%v:%v", cm["status"], cm["reason"])
			msg, _ := cm["message"].(string)
			if msg != "" {
				m["step"] = "other"
				for _, p := range stepPrefix {
					if strings.HasPrefix(msg, p[0]) {
						m["step"] = p[1]
					}
				}
				for _, p := range detailSub {
					if strings.Contains(msg, p[0]) && m["detail"] == "none" {
						m["detail"] = p[1]
					}
				}
			}
		case "Ready":
			m["ready"] = fmt.Sprintf("%v:%v", cm["status"], cm["reason"])
		}
	}
	// everything else the reconciler has no business changing
	ann := map[string]string{}
	for k, v := range u.GetAnnotations() {
		if k != pausedAnn || v != "true" {
			ann[k] = v
		}
	}
	lab := map[string]string{}
	for k, v := range u.GetLabels() {
		if k != labelName {
			lab[k] = v
		}
	}
	rest["ann"], rest["lab"], rest["own"] = ann, lab, u.GetOwnerReferences()
	spec, _, _ := unstructured.NestedMap(u.Object, "spec")
	sp := map[string]any{}
	for k, v := range spec {
		if k != "compositionRef" && k != "compositionRevisionRef" && k != "writeConnectionSecretToRef" {
			sp[k] = v
		}
	}
	rest["spec"] = sp
	b, _ := json.Marshal(rest)
	m["rest"] = fmt.Sprintf("%x", sha256.Sum256(b))[:12]
	return m
}

func (w *world) post() map[string]any {
	var xr map[string]any
	comps := []any{}
	secs := []any{}
	xrd := map[string]any{"default": "none", "enforced": "none", "captured": orNone(w.captured)}
	h := sha256.New()
	w.s.Read(func(keys []simapi.Key, all map[simapi.Key]*unstructured.Unstructured) {
		xr = xrProj(all[xrKey])
		for _, k := range keys {
			fmt.Fprintf(h, "%s=%s;", k, all[k].GetResourceVersion())
			if k.Kind == "Secret" {
				secs = append(secs, k.Namespace+"/"+k.Name)
			}
		}
		for _, n := range w.names {
			a := w.attrs[n]
			cm := map[string]any{"name": n, "ex": false, "lab": "none", "rev": false, "revname": revNameOf(n), "compat": a.compat, "valid": a.valid, "wns": a.wns}
			if c := all[compKey(n)]; c != nil {
				cm["ex"] = true
				cm["lab"] = orNone(c.GetLabels()[selLabel])
			}
			if r := all[revKey(n)]; r != nil {
				cm["rev"] = true
			}
			comps = append(comps, cm)
		}
		if d := all[xrdKey]; d != nil {
			if n, _, _ := unstructured.NestedString(d.Object, "spec", "defaultCompositionRef", "name"); n != "" {
				xrd["default"] = n
			}
			if n, _, _ := unstructured.NestedString(d.Object, "spec", "enforcedCompositionRef", "name"); n != "" {
				xrd["enforced"] = n
			}
		}
	})
	return map[string]any{"xr": xr, "comps": comps, "xrd": xrd, "secs": secs, "digest": fmt.Sprintf("%x", h.Sum(nil)[:8])}
}

func noArg() map[string]any {
	return map[string]any{"fin": false, "del": false, "paused": false, "ref": "none", "rev": "none", "lab": "none", "wsec": "none",
		"reqrev": "none", "revcomp": "none", "compat": false, "valid": false}
}

func (w *world) emit(ev string, m map[string]any) {
	seen := map[string]any{"got": false, "ex": false, "del": false, "paused": false, "fin": false, "ref": "none", "sel": "none"}
	if w.seen != nil {
		for k := range seen {
			seen[k] = w.seen[k]
		}
	}
	arg := w.arg
	if arg == nil {
		arg = noArg()
	}
	base := map[string]any{"ev": ev, "scenario": w.scenID, "rec": w.recNo,
		"verb": "", "kind": "", "abs": "", "cls": "", "outcome": "", "injected": "", "applied": false, "noop": false,
		"seen": seen, "listed": append([]any{}, w.listed...), "sdef": orNone(w.sdef), "gotcomp": orNone(w.gotcomp), "lrevs": append([]any{}, w.lrevs...), "fails": append([]any{}, w.fails...),
		"composed": orNone(w.composed), "unpub": w.unpub, "statusOK": w.statusOK, "arg": arg,
		"result": "", "requeue": false, "after": 0, "evs": append([]any{}, w.evs...), "faulty": false, "quiet": false, "clean": false, "steady": false,
		"prevDigest": w.prevDig, "post": w.post()}
	for k, v := range m {
		base[k] = v
	}
	if a, _ := base["abs"].(string); a != "" {
		base["cls"] = strings.SplitN(a, ":", 2)[0]
	}
	w.buf = append(w.buf, base)
}

// ---------------------------------------------------------------- classification of the real calls

// classify maps a real call to the abstract call key of XRLifecycle.tla.
func (w *world) classify(c *simapi.Call) string {
	verb := c.Verb
	switch c.Key.Kind {
	case "XThing":
		switch {
		case verb == "get" && c.Idx == 1:
			return "get:xr"
		case verb == "get":
			return "reget:xr"
		case verb == "update" && c.Sub == "status":
			return "status:xr"
		case verb == "update":
			return w.classifyUpdate(c.Obj)
		case verb == "patch-merge" && c.Sub == "":
			return "patch:xr"
		case verb == "create":
			return "create:xr"
		}
		return verb + "-" + c.Sub + ":xr"
	case "CompositeResourceDefinition":
		return verb + ":xrd"
	case "Composition":
		if verb == "list" {
			return "list:comp"
		}
		return verb + ":" + c.Key.Name
	case "CompositionRevision":
		if verb == "list" {
			return "list:rev"
		}
		return verb + ":rev"
	case "Secret":
		if strings.HasPrefix(verb, "patch") {
			verb = "patch"
		}
		return verb + ":secret"
	}
	return "other:" + c.Key.Kind
}

// classifyUpdate names an Update of the XR after what its body changes relative to the stored object.
func (w *world) classifyUpdate(body *unstructured.Unstructured) string {
	cur := w.s.Peek(xrKey)
	if body == nil {
		return "update:xr"
	}
	var a map[string]any
	if cur != nil {
		a = xrProj(cur)
	} else if w.seen != nil {
		a = w.seen
	} else {
		a = noXR()
	}
	b := xrProj(body)
	var d []string
	if a["fin"] != b["fin"] {
		if b["fin"] == true {
			d = append(d, "addfin:xr")
		} else {
			d = append(d, "rmfin:xr")
		}
	}
	if a["ref"] != b["ref"] {
		d = append(d, "setref:"+b["ref"].(string))
	}
	if a["lab"] != b["lab"] {
		d = append(d, "label:xr")
	}
	if a["wsec"] != b["wsec"] {
		d = append(d, "wsec:xr")
	}
	if len(d) == 1 {
		return d[0]
	}
	if len(d) == 0 {
		return "update:xr"
	}
	return "update:" + strings.Join(d, "+")
}

func (w *world) intercept(cl *simapi.Call) simapi.Decision {
	abs := w.classify(cl)
	w.pendingAbs = abs
	if strings.HasPrefix(abs, "setref:") && w.expectPick != "" && abs != "setref:"+w.expectPick {
		w.mismatch = true
	}
	if w.al == nil {
		return simapi.Proceed
	}
	d := w.al.OnCall(abs, cl.Write)
	if m := w.al.Matched; m != nil && m.F == "conflict" {
		// (replay.Aligner knows "fail"/"error"/"crashBefore"/"crashAfter"/"miss"; the Conflict is delivered here)
		w.al.Injected = simapi.FailConflict.String()
		if cl.Write {
			return simapi.FailConflict
		}
		return simapi.FailError
	}
	return d
}

func (w *world) fail(abs, kind, outcome string) {
	w.fails = append(w.fails, map[string]any{"abs": abs, "cls": strings.SplitN(abs, ":", 2)[0], "kind": kind, "outcome": outcome})
}

func (w *world) onEvent(e *simapi.Event) {
	if e.Outcome == "dropped" && e.Injected == "" {
		return
	}
	abs := w.pendingAbs
	kind := map[string]string{"XThing": "xr", "Composition": "comp", "CompositionRevision": "rev", "CompositeResourceDefinition": "xrd", "Secret": "secret"}[e.Kind]
	if kind == "" {
		kind = "other"
	}
	verb := e.Verb
	if e.Sub != "" {
		verb += "-" + e.Sub
	}
	applied := e.Applied && !e.DryRun
	switch {
	case abs == "get:xr" && (e.Outcome == "ok" || e.Outcome == "notfound") && e.Injected == "":
		w.seen = xrProj(w.s.Peek(xrKey))
		w.seen["got"] = true
	case abs == "list:comp" && e.Outcome == "ok":
		w.listed = []any{}
		for _, n := range w.names {
			if c := w.s.Peek(compKey(n)); c != nil {
				w.listed = append(w.listed, map[string]any{"name": n, "lab": orNone(c.GetLabels()[selLabel]), "compat": w.attrs[n].compat})
			}
		}
	case e.Kind == "Composition" && e.Verb == "get":
		w.gotcomp = e.Name
	case abs == "list:rev" && e.Outcome == "ok":
		w.lrevs = []any{}
		for _, r := range w.s.All(schema.GroupKind{Group: "apiextensions.crossplane.io", Kind: "CompositionRevision"}) {
			w.lrevs = append(w.lrevs, r.GetName())
		}
	case abs == "get:xrd" && e.Outcome == "ok":
		w.sdef = "none"
		if d := w.s.Peek(xrdKey); d != nil {
			if n, _, _ := unstructured.NestedString(d.Object, "spec", "defaultCompositionRef", "name"); n != "" {
				w.sdef = n
			}
		}
	}
	if e.Outcome != "ok" {
		w.fail(abs, kind, e.Outcome)
	}
	if abs == "status:xr" && e.Outcome == "ok" && e.Injected == "" {
		w.statusOK = true
	}
	w.emit("call", map[string]any{"verb": verb, "kind": kind, "abs": abs, "outcome": e.Outcome, "injected": e.Injected,
		"applied": applied, "noop": e.Noop})
}

// ---------------------------------------------------------------- stubs: Composer, second ConnectionPublisher, event recorder

func (w *world) virtual(abs string) string {
	out := "ok"
	if w.al != nil {
		w.al.OnCall(abs, false)
		if m := w.al.Matched; m != nil {
			out = m.F
			if out == "conflict" {
				w.al.Injected = "conflict"
			}
		}
	}
	return out
}

func (w *world) compose(_ context.Context, xr *ucomposite.Unstructured, req composite.CompositionRequest) (composite.CompositionResult, error) {
	out := w.virtual("compose:")
	a := noArg()
	p := xrProj(&xr.Unstructured)
	for _, k := range []string{"fin", "del", "paused", "ref", "rev", "lab", "wsec"} {
		a[k] = p[k]
	}
	if r := req.Revision; r != nil {
		a["reqrev"] = orNone(r.GetName())
		a["revcomp"] = orNone(r.GetLabels()[v1.LabelCompositionName])
		av, k := xrGVK.ToAPIVersionAndKind()
		a["compat"] = r.Spec.CompositeTypeRef.APIVersion == av && r.Spec.CompositeTypeRef.Kind == k
		if r.Spec.Mode != nil && *r.Spec.Mode == v1.CompositionModePipeline {
			a["valid"] = len(r.Spec.Pipeline) > 0
		} else {
			a["valid"] = len(r.Spec.Resources) > 0
		}
	}
	w.arg = a
	w.composed = out
	res := composite.CompositionResult{Composed: []composite.ComposedResource{{ResourceName: "r", Ready: out != "unready", Synced: true}}}
	var err error
	switch out {
	case "error":
		err = errors.New("injected composer failure")
	case "conflict":
		err = kerrors.NewConflict(schema.GroupResource{Group: "ex.org", Resource: "things"}, "r", errors.New("injected"))
	}
	if err != nil {
		w.fail("compose:", "", out)
	}
	w.emit("compose", map[string]any{"abs": "compose:", "outcome": out})
	w.arg = nil
	return res, err
}

type recPublisher struct{ w *world }

func (p *recPublisher) PublishConnection(context.Context, resource.ConnectionSecretOwner, managed.ConnectionDetails) (bool, error) {
	return false, nil
}

func (p *recPublisher) UnpublishConnection(context.Context, resource.ConnectionSecretOwner, managed.ConnectionDetails) error {
	out := p.w.virtual("unpublish:")
	if out == "error" {
		p.w.fail("unpublish:", "", "error")
		p.w.emit("unpublish", map[string]any{"abs": "unpublish:", "outcome": "error"})
		return errors.New("injected unpublish failure")
	}
	p.w.unpub = true
	p.w.emit("unpublish", map[string]any{"abs": "unpublish:", "outcome": "ok"})
	return nil
}

type recorder struct{ w *world }

func (r *recorder) Event(_ runtime.Object, e event.Event) {
	r.w.evs = append(r.w.evs, string(e.Type)+":"+string(e.Reason))
}
func (r *recorder) WithAnnotations(...string) event.Recorder { return r }

// the engine the definition reconciler hands to CompositeReconcilerOptions: it only serves the clients
type clientEngine struct{ c, uc client.Client }

func (e *clientEngine) Start(string, ...engine.ControllerOption) error { return nil }
func (e *clientEngine) Stop(context.Context, string) error             { return nil }
func (e *clientEngine) IsRunning(string) bool                          { return true }
func (e *clientEngine) GetWatches(string) ([]engine.WatchID, error)    { return nil, nil }
func (e *clientEngine) StartWatches(string, ...engine.Watch) error     { return nil }
func (e *clientEngine) StopWatches(context.Context, string, ...engine.WatchID) (int, error) {
	return 0, nil
}
func (e *clientEngine) GetCached() client.Client             { return e.c }
func (e *clientEngine) GetUncached() client.Client           { return e.uc }
func (e *clientEngine) GetFieldIndexer() client.FieldIndexer { return nil }

// build (re)creates the XR controller the way the XRD controller does when it (re)starts it:
// definition.Reconciler.CompositeReconcilerOptions on the XRD as stored now.
func (w *world) build() {
	d := &v1.CompositeResourceDefinition{}
	if u := w.s.Peek(xrdKey); u != nil {
		if err := runtime.DefaultUnstructuredConverter.FromUnstructured(u.Object, d); err != nil {
			panic(err)
		}
	}
	w.captured = ""
	if d.Spec.EnforcedCompositionRef != nil {
		w.captured = d.Spec.EnforcedCompositionRef.Name
	}
	dr := definition.NewReconciler(definition.NewClientApplicator(w.c),
		definition.WithControllerEngine(&clientEngine{c: w.c, uc: w.uc}),
		definition.WithRecorder(&recorder{w: w}),
		definition.WithOptions(apiextcontroller.Options{Options: controller.Options{PollInterval: pollMillis * time.Millisecond}}))
	opts := dr.CompositeReconcilerOptions(context.Background(), d)
	opts = append(opts,
		composite.WithConnectionPublishers(composite.NewAPIFilteredSecretPublisher(w.c, d.GetConnectionSecretKeys()), &recPublisher{w: w}),
		composite.WithComposer(composite.ComposerFn(w.compose)))
	w.rec = xperrors.WithSilentRequeueOnConflict(composite.NewReconciler(w.c, w.uc, resource.CompositeKind(d.GetCompositeGroupVersionKind()), opts...))
}

// ---------------------------------------------------------------- the environment

func (w *world) putComp(n, lab string, withRev bool) {
	a := w.attrs[n]
	c := &v1.Composition{ObjectMeta: metav1.ObjectMeta{Name: n, Labels: map[string]string{selLabel: lab}}}
	c.Spec.CompositeTypeRef = v1.TypeReference{APIVersion: "ex.org/v1", Kind: "XThing"}
	if !a.compat {
		c.Spec.CompositeTypeRef.APIVersion = "ex.org/v2" // another version of the same kind
	}
	if a.valid {
		c.Spec.Mode = ptr.To(v1.CompositionModePipeline)
		c.Spec.Pipeline = []v1.PipelineStep{{Step: "s", FunctionRef: v1.FunctionReference{Name: "fn"}}}
	} else {
		c.Spec.Mode = ptr.To(v1.CompositionModeResources)
	}
	if a.wns != "none" {
		c.Spec.WriteConnectionSecretsToNamespace = ptr.To(a.wns)
	}
	w.s.Put(c)
	if withRev {
		w.putRev(n)
	}
}

func (w *world) putRev(n string) {
	cu := w.s.Peek(compKey(n))
	if cu == nil {
		return
	}
	c := &v1.Composition{}
	_ = runtime.DefaultUnstructuredConverter.FromUnstructured(cu.Object, c)
	r := &v1.CompositionRevision{ObjectMeta: metav1.ObjectMeta{Name: revNameOf(n), Labels: map[string]string{v1.LabelCompositionName: n},
		OwnerReferences: []metav1.OwnerReference{{APIVersion: "apiextensions.crossplane.io/v1", Kind: "Composition", Name: n, UID: cu.GetUID(),
			Controller: ptr.To(true), BlockOwnerDeletion: ptr.To(true)}}}}
	r.Spec.CompositeTypeRef = c.Spec.CompositeTypeRef
	r.Spec.Mode = c.Spec.Mode
	r.Spec.Pipeline = c.Spec.Pipeline
	r.Spec.WriteConnectionSecretsToNamespace = c.Spec.WriteConnectionSecretsToNamespace
	r.Spec.Revision = 1
	w.s.Put(r)
}

func (w *world) env(e replay.Entry) {
	w.prevOK = false
	switch e.K {
	case "pause":
		w.s.Mutate(xrKey, func(u *unstructured.Unstructured) { meta.AddAnnotations(u, map[string]string{pausedAnn: "true"}) })
	case "unpause":
		w.s.Mutate(xrKey, func(u *unstructured.Unstructured) { meta.RemoveAnnotations(u, pausedAnn) })
	case "touch":
		// an edit the reconciler does not care about; where possible the look-alike value crossplane.io/paused: "false"
		w.touched++
		w.s.Mutate(xrKey, func(u *unstructured.Unstructured) {
			switch v, ok := u.GetAnnotations()[pausedAnn]; {
			case !ok:
				meta.AddAnnotations(u, map[string]string{pausedAnn: "false"})
			case v == "false":
				meta.AddAnnotations(u, map[string]string{pausedAnn: "False"})
			default:
				meta.AddAnnotations(u, map[string]string{touchAnn: fmt.Sprint(w.touched)})
			}
		})
	case "delete":
		w.s.MarkDeleted(xrKey)
	case "addcomp":
		w.putComp(e.O, e.F, true)
	case "addcomp-norev":
		w.putComp(e.O, e.F, false)
	case "delcomp":
		w.s.Remove(compKey(e.O))
		w.s.Remove(revKey(e.O))
	case "relabel":
		w.s.Mutate(compKey(e.O), func(u *unstructured.Unstructured) { meta.AddLabels(u, map[string]string{selLabel: e.F}) })
	case "mkrev":
		w.putRev(e.O)
	case "default":
		w.s.Mutate(xrdKey, func(u *unstructured.Unstructured) {
			if e.O == "none" {
				unstructured.RemoveNestedField(u.Object, "spec", "defaultCompositionRef")
			} else {
				_ = unstructured.SetNestedField(u.Object, e.O, "spec", "defaultCompositionRef", "name")
			}
		})
	case "enforce":
		w.s.Mutate(xrdKey, func(u *unstructured.Unstructured) {
			_ = unstructured.SetNestedField(u.Object, e.O, "spec", "enforcedCompositionRef", "name")
		})
		w.build() // the XRD changed: the XRD controller restarts the XR controller
	default:
		panic("unknown env step " + e.K)
	}
	w.emit("env", map[string]any{"verb": e.K, "abs": "env:" + e.K, "outcome": orNone(e.O)})
}

func str(m map[string]any, k string) string { s, _ := m[k].(string); return s }
func boo(m map[string]any, k string) bool   { b, _ := m[k].(bool); return b }

func newWorld(id string, init map[string]any) *world {
	sch := runtime.NewScheme()
	_ = v1.AddToScheme(sch)
	_ = corev1.AddToScheme(sch)
	s := simapi.NewServer(sch)
	w := &world{s: s, sch: sch, scenID: id, attrs: map[string]compAttr{}}
	w.c = simapi.NewClient(s, "xr")
	w.c.Intercept = w.intercept
	w.uc = w.c.Sibling("xr-uncached")

	ics, _ := init["comps"].(map[string]any)
	for n := range ics {
		w.names = append(w.names, n)
	}
	sort.Strings(w.names)
	for _, n := range w.names {
		cm := ics[n].(map[string]any)
		a := compAttr{compat: boo(cm, "compat"), valid: boo(cm, "valid"), wns: "none"}
		if boo(cm, "wns") {
			a.wns = "ns-" + n
		}
		w.attrs[n] = a
	}
	for _, n := range w.names {
		cm := ics[n].(map[string]any)
		if boo(cm, "ex") {
			w.putComp(n, str(cm, "lab"), boo(cm, "rev"))
		}
	}

	d := &v1.CompositeResourceDefinition{ObjectMeta: metav1.ObjectMeta{Name: xrdName}}
	d.Spec.Group = "ex.org"
	d.Spec.Names.Kind, d.Spec.Names.Plural = "XThing", "xthings"
	d.Spec.Versions = []v1.CompositeResourceDefinitionVersion{{Name: "v1", Served: true, Referenceable: true}}
	if n := str(init, "xdef"); n != "none" && n != "" {
		d.Spec.DefaultCompositionRef = &v1.CompositionReference{Name: n}
	}
	if n := str(init, "enf"); n != "none" && n != "" {
		d.Spec.EnforcedCompositionRef = &v1.CompositionReference{Name: n}
	}
	s.Put(d)

	ix, _ := init["xr"].(map[string]any)
	xr := &unstructured.Unstructured{Object: map[string]any{}}
	xr.SetGroupVersionKind(xrGVK)
	xr.SetName(xrName)
	_ = unstructured.SetNestedField(xr.Object, "large", "spec", "size")
	if n := str(ix, "ref"); n != "none" && n != "" {
		_ = unstructured.SetNestedField(xr.Object, n, "spec", "compositionRef", "name")
	}
	if n := str(ix, "sel"); n != "none" && n != "" {
		_ = unstructured.SetNestedField(xr.Object, n, "spec", "compositionSelector", "matchLabels", selLabel)
	}
	if str(ix, "lab") == "user" {
		xr.SetLabels(map[string]string{labelName: "my-prefix"})
	}
	if str(ix, "wsec") == "user" {
		_ = unstructured.SetNestedField(xr.Object, "my-secret", "spec", "writeConnectionSecretToRef", "name")
		_ = unstructured.SetNestedField(xr.Object, "my-ns", "spec", "writeConnectionSecretToRef", "namespace")
	}
	if boo(ix, "ofin") {
		xr.SetFinalizers([]string{otherFin})
	}
	s.Put(xr)
	w.build()
	s.OnEvent = w.onEvent
	return w
}

type sweep struct {
	rec, idx int
	d        simapi.Decision
}

func (w *world) reconcile(al *replay.Aligner, sw *sweep) int {
	w.recNo++
	al.Window = 0
	w.al = al
	w.expectPick = ""
	for _, e := range al.Steps {
		if e.T == "call" && e.K == "setref" {
			w.expectPick = e.O
		}
	}
	w.seen, w.listed, w.sdef, w.fails, w.composed, w.unpub, w.statusOK, w.evs, w.arg = nil, nil, "", nil, "", false, false, nil, nil
	w.gotcomp, w.lrevs = "", nil
	w.c.BeginReconcile()
	inner := w.intercept
	icpt := inner
	if sw != nil && sw.rec == w.recNo {
		icpt = func(cl *simapi.Call) simapi.Decision {
			d := inner(cl)
			if cl.Idx == sw.idx && d == simapi.Proceed {
				sd := sw.d
				if (sd == simapi.FailConflict || sd == simapi.CrashAfter) && !cl.Write {
					sd = simapi.FailError
				}
				if sd == simapi.CacheMiss && (cl.Write || cl.Verb != "get") {
					sd = simapi.FailError
				}
				al.Injected = sd.String()
				return sd
			}
			return d
		}
	}
	w.c.Intercept, w.uc.Intercept = icpt, icpt
	w.emit("start", nil)
	res, err := w.rec.Reconcile(context.Background(), reconcile.Request{NamespacedName: types.NamespacedName{Name: xrName}})
	calls := w.c.Calls()
	envBefore := al.EnvSteps
	result := "ok"
	crashed := w.c.Dead()
	if crashed {
		result = "crashed"
	} else if err != nil {
		result = "error"
	}
	faulty := al.Injected != ""
	quiet := envBefore == 0
	p := w.post()
	thisOK := !faulty && quiet && !crashed
	steady := thisOK && w.prevOK && w.composed == w.prevComposed
	w.emit("end", map[string]any{"result": result, "requeue": res.Requeue, "after": int(res.RequeueAfter / time.Millisecond),
		"faulty": faulty, "quiet": quiet, "clean": thisOK, "steady": steady})
	al.Finish() // environment steps the scenario placed after the last call it expected
	w.prevOK = thisOK && al.EnvSteps == envBefore
	w.prevDig = p["digest"].(string)
	w.prevComposed = w.composed
	w.al = nil
	w.c.Intercept, w.uc.Intercept = inner, inner
	if crashed {
		w.build() // the process is gone: a new one builds its controller from the XRD as stored
	}
	return calls
}

type summary struct {
	Scenarios  int            `json:"scenarios"`
	Runs       int            `json:"runs"`
	Reconciles int            `json:"reconciles"`
	Events     int            `json:"events"`
	Drift      int            `json:"drift"`
	DriftRuns  int            `json:"drift_runs"`
	SweepRuns  int            `json:"sweep_runs"`
	Retries    int            `json:"retries"`
	Unaligned  int            `json:"unaligned_random_picks"`
	DriftByAbs map[string]int `json:"drift_by_abs"`
	Counts     map[string]int `json:"counts"`
	Samples    []any          `json:"samples"`
}

func runOnce(id string, hist []replay.Entry, sw *sweep, extra int, sum *summary) (*world, []int, int, []string) {
	w := newWorld(id, hist[0].Raw)
	w.emit("reset", nil)
	blocks, trailing := replay.Split(hist[1:], func(e replay.Entry) bool { return e.Abs() == "get:xr" })
	var calls []int
	var driftAbs []string
	drift, recs := 0, 0
	for _, b := range blocks {
		for _, e := range b.Pre {
			w.env(e)
		}
		al := &replay.Aligner{Steps: append([]replay.Entry(nil), b.Steps...), Env: w.env}
		calls = append(calls, w.reconcile(al, sw))
		drift += al.Drift
		driftAbs = append(driftAbs, al.DriftAbs...)
		recs++
	}
	for _, e := range trailing {
		w.env(e)
	}
	for i := 0; i < extra; i++ {
		al := &replay.Aligner{Env: w.env}
		calls = append(calls, w.reconcile(al, sw))
		recs++
	}
	sum.Reconciles += recs
	return w, calls, drift, driftAbs
}

// run replays one scenario; when the label selector's random pick differs from the scenario's it is replayed again
// (the pick is seeded from the clock inside the code under test).
func run(tw *trace.Writer, id string, hist []replay.Entry, sw *sweep, extra int, sum *summary) []int {
	var w *world
	var calls []int
	var drift int
	var driftAbs []string
	for attempt := 0; ; attempt++ {
		w, calls, drift, driftAbs = runOnce(id, hist, sw, extra, sum)
		if !w.mismatch || attempt >= 12 {
			if w.mismatch {
				sum.Unaligned++
			}
			break
		}
		sum.Retries++
	}
	tw.Boundary()
	for _, e := range w.buf {
		tw.Emit(e)
	}
	sum.Runs++
	if sw == nil {
		sum.Drift += drift
		if drift > 0 {
			sum.DriftRuns++
		}
		for _, k := range driftAbs {
			sum.DriftByAbs[k]++
		}
	}
	return calls
}

func main() {
	scenarios := flag.String("scenarios", "", "NDJSON file of TLC histories")
	tracePath := flag.String("trace", "", "output trace")
	sumPath := flag.String("summary", "", "output summary JSON")
	chunk := flag.Int("chunk", 0, "split the trace into files of about this many events")
	sweepN := flag.Int("sweep", 0, "number of scenarios to sweep over every real call index x outcome")
	extraN := flag.Int("extra", 2, "fault-free reconciles appended to every scenario")
	flag.Parse()

	raws, err := scen.Load(*scenarios)
	if err != nil {
		fmt.Fprintln(os.Stderr, err)
		os.Exit(2)
	}
	tw, err := trace.New(*tracePath, *chunk)
	if err != nil {
		fmt.Fprintln(os.Stderr, err)
		os.Exit(2)
	}
	sum := &summary{DriftByAbs: map[string]int{}}
	dec := map[string]simapi.Decision{"error": simapi.FailError, "conflict": simapi.FailConflict, "crashBefore": simapi.CrashBefore,
		"crashAfter": simapi.CrashAfter, "cacheMiss": simapi.CacheMiss}
	for i, raw := range raws {
		var sc struct {
			ID    string          `json:"id"`
			Hist  json.RawMessage `json:"hist"`
			Extra *int            `json:"extra"`
			Sweep *struct {
				Rec     int    `json:"rec"`
				Idx     int    `json:"idx"`
				Outcome string `json:"outcome"`
			} `json:"sweep"`
		}
		if err := json.Unmarshal(raw, &sc); err != nil {
			fmt.Fprintln(os.Stderr, "bad scenario:", err)
			os.Exit(2)
		}
		hist, err := replay.Parse(sc.Hist)
		if err != nil || len(hist) == 0 || hist[0].T != "init" {
			fmt.Fprintln(os.Stderr, "bad scenario history:", err)
			os.Exit(2)
		}
		sum.Scenarios++
		if len(sum.Samples) < 2 {
			sum.Samples = append(sum.Samples, json.RawMessage(raw))
		}
		ex := *extraN
		if sc.Extra != nil {
			ex = *sc.Extra
		}
		if sc.Sweep != nil {
			run(tw, sc.ID, hist, &sweep{rec: sc.Sweep.Rec, idx: sc.Sweep.Idx, d: dec[sc.Sweep.Outcome]}, ex, sum)
			continue
		}
		calls := run(tw, sc.ID, hist, nil, ex, sum)
		if i < *sweepN {
			// every real call index of every reconcile x every outcome, followed by the fault-free reconciles
			for r, n := range calls {
				for k := 1; k <= n; k++ {
					for _, d := range []simapi.Decision{simapi.FailError, simapi.FailConflict, simapi.CrashBefore, simapi.CrashAfter, simapi.CacheMiss} {
						run(tw, fmt.Sprintf("%s/sweep-r%d-k%d-%s", sc.ID, r+1, k, d), hist, &sweep{rec: r + 1, idx: k, d: d}, ex, sum)
						sum.SweepRuns++
					}
				}
			}
		}
	}
	sum.Events = tw.Lines
	sum.Counts = tw.Counts
	if err := tw.Close(); err != nil {
		fmt.Fprintln(os.Stderr, err)
		os.Exit(2)
	}
	if err := scen.WriteJSON(*sumPath, sum); err != nil {
		fmt.Fprintln(os.Stderr, err)
		os.Exit(2)
	}
}
