------------------------------ MODULE MCUsage ------------------------------
EXTENDS Usage, Json
S1 == <<"s1">>
S2 == <<"s1", "s2">>
U1 == <<"u1">>
U2 == <<"u1", "u2">>
Cfg(o, v, b, c) == [of |-> o, ver |-> v, by |-> b, comp |-> c]
\* the minimal Usage: by reference, no using resource
CfgMin == {Cfg("u1", "v1", "none", FALSE)}
\* by reference in both versions, with and without a using resource
CfgRef == {Cfg("u1", "v1", "none", FALSE), Cfg("u1", "v1beta1", "b1", FALSE)}
\* every way of naming the used / using resource, composed or not
CfgAll == {Cfg("u1", "v1", "none", FALSE), Cfg("u1", "v1beta1", "b1", FALSE), Cfg("u1", "v1", "b1", TRUE),
           Cfg("sel", "v1", "b1", FALSE), Cfg("selctl", "v1beta1", "sel", TRUE), Cfg("selctl", "v1", "none", FALSE),
           Cfg("sel", "v1", "selctl", TRUE), Cfg("u1", "v1", "selctl", FALSE)}
CfgTwo == {Cfg("u1", "v1", "none", FALSE), Cfg("u2", "v1", "b1", FALSE), Cfg("sel", "v1beta1", "none", FALSE),
           Cfg("selctl", "v1", "b1", TRUE)}
CfgSel == {Cfg("u1", "v1", "none", FALSE), Cfg("sel", "v1", "none", FALSE), Cfg("u1", "v1beta1", "b1", FALSE)}
\* composed Usages by a using resource (the wait for the using resource, C08 rider)
CfgComp == {Cfg("u1", "v1", "b1", TRUE), Cfg("selctl", "v1beta1", "sel", TRUE), Cfg("u1", "v1", "b1", FALSE)}
PolAll == {"none", "Background", "Foreground", "Orphan"}
Pol2 == {"none", "Foreground"}
Pol1 == {"none"}
\* scenario emission: one history per transition that ends a reconcile, is a delete request or a re-application by the composer
LastK == hist'[Len(hist')].k
Emit == ((\E s \in Usages : pc[s] # "idle" /\ pc'[s] = "idle") \/ LastK \in {"delreq", "recompose"})
          => PrintT(<<"TRACE", ToJson(hist')>>)
\* a failed first Get also ends a reconcile (pc stays idle)
EmitAll == (Emit /\ ((LastK = "get" /\ hist'[Len(hist')].f = "fail") => PrintT(<<"TRACE", ToJson(hist')>>)))
=============================================================================
