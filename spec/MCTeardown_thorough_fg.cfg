SPECIFICATION Spec
CONSTANTS
  Foreground = TRUE
  MaxRecs = 2
  MaxEnv = 3
  MaxFaults = 1
  ThirdParty = FALSE
VIEW view
ACTION_CONSTRAINT EmitEnd
CHECK_DEADLOCK FALSE

